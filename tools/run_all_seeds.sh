#!/bin/bash
# run_all_seeds.sh [ids...]: applies every stored seeded change in turn and reports whether the property's check flags it.
cd /verif
out=/verif/work/seed_results.txt
: > $out
ids="$@"
[ -z "$ids" ] && ids=$(ls seeded | sort)
for s in $ids; do
  r=$(timeout 1200 ./tools/run_seed.sh $s 2>&1 | grep -c "^VIOLATION")
  echo "$s violations=$r" | tee -a $out
done
