#!/bin/bash
# runs every claimed check once; prints the summary line of each
cd /verif
for p in $(jq -r '.checks[].property_id' MANIFEST.json) "$@"; do
  timeout 1200 ./check $p > /tmp/runall_$p.log 2>&1; rc=$?
  echo "rc=$rc $(tail -1 /tmp/runall_$p.log)"
  grep "^VIOLATION" /tmp/runall_$p.log | head -3 | cut -c1-160
done
