#!/bin/bash
# seed_scratch.sh <seed id>: applies the stored change to a scratch copy of /repo's working tree (removed afterwards)
# and runs the property's check against that copy. Same procedure as the thorough-tier self-test, usable in parallel.
id=$1; prop=${id%%-*}
scratch=$(mktemp -d /tmp/verif_seedrun.XXXXXX)
rsync -a --exclude .git /repo/ "$scratch"/
if ! (cd "$scratch" && patch -p1 -s --no-backup-if-mismatch < /verif/seeded/$id/patch.diff >/dev/null 2>&1); then echo "$id patch-does-not-apply"; rm -rf "$scratch"; exit 2; fi
VERIF_REPO="$scratch" VERIF_SELFTEST=1 timeout 1500 /verif/bin/vcgen check "$prop" --tier quick > /verif/work/seedrun_$id.log 2>&1
n=$(grep -c '^VIOLATION' /verif/work/seedrun_$id.log)
grep -q "^$prop: [0-9]* obligations" /verif/work/seedrun_$id.log || { echo "$id run-failed (no summary line; see work/seedrun_$id.log)"; rm -rf "$scratch"; exit 2; }
echo "$id violations=$n $(grep '^VIOLATION' /verif/work/seedrun_$id.log | head -3 | sed 's/.*replay=[^ ]*\///' | tr '\n' ' ' | cut -c1-300)"
rm -rf "$scratch"
