#!/usr/bin/env python3
# Regenerates /verif/MANIFEST.json from tools/claims.json (claimed properties) + properties.jsonl.
import json, os
root = os.path.dirname(os.path.dirname(os.path.abspath(__file__)))
props = [json.loads(l) for l in open(os.path.join(root, 'properties.jsonl'))]
claims = json.load(open(os.path.join(root, 'tools', 'claims.json')))
import subprocess
try:
    log = subprocess.check_output(['git', '-C', '/repo', 'log', '--format=%h %s'], text=True).splitlines()
    hooks = [l.split()[0] for l in log if ' verif hook' in l]
    if hooks:
        claims['_hook_commits'] = list(reversed(hooks))
except Exception:
    pass
checks, na = [], []
for p in props:
    pid = p['id']
    c = claims.get(pid)
    if c and c.get('claimed'):
        checks.append({
            "property_id": pid,
            "quick_cmd": "./check %s --tier quick" % pid,
            "thorough_cmd": "./check %s --tier thorough" % pid,
            "evidence_file": "/verif/evidence/%s.json" % pid,
            "replay_cmd_template": "./check %s --replay {path}" % pid,
            "engine": "vcgen",
            "level_claimed": {"category": c.get("category", "proof"), "text": c["text"], "design_ref": c.get("design_ref", "DESIGN.md section 6, " + pid)},
            "level_note": c["note"],
            "technique": c.get("technique", "contract-based deductive verification: weakest-precondition VCs over go/ssa from //@ contracts, discharged by z3/cvc5"),
        })
    else:
        reason = (c or {}).get("reason", "contracts not yet discharged (engine reaches the functions; obligations for this property are not written or not yet proved)")
        na.append({"property_id": pid, "reason": reason})
m = {
    "version": 1,
    "setup_cmd": "cd /verif/engine && GOFLAGS=-mod=vendor GOPROXY=off GOSUMDB=off GOTOOLCHAIN=local go build -o /verif/bin/vcgen .",
    "hooks": {
        "guard": "verif",
        "enable": "contracts live in /repo/**/zz_contracts_verif.go (//go:build verif, comments only) and the executable reference specifications of the bounded checks in /repo/server/zz_verif_spec.go (//go:build verif); the engine loads packages with -tags verif",
        "baseline_off_cmd": "cd /repo && GOFLAGS=-mod=mod GOPROXY=off go test -vet=off -count=1 -timeout 25m ./...",
        "source_commits": claims.get("_hook_commits", []),
        "add_only": True,
    },
    "engines": [{"name": "vcgen", "path": "/verif/engine", "serves_properties": [c["property_id"] for c in checks],
                 "kind_free_text": "VC generator over go/ssa (NaiveForm) with contracts in //@ comment files, loop cutting at invariants, modular calls, Burstall-Bornat heap; SMT portfolio z3 4.8.12 / z3 5.1.0 / cvc5 1.0 with engine-side ground instantiation; counterexample replay with go test -overlay"}],
    "checks": checks,
    "not_applicable": na,
    "notes": "Fix commits in /repo and known findings are listed in /verif/KNOWN_FINDINGS. See DESIGN.md.",
}
json.dump(m, open(os.path.join(root, 'MANIFEST.json'), 'w'), indent=1)
print("claimed:", [c["property_id"] for c in checks])
