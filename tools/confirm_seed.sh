#!/bin/bash
# confirm_seed.sh <seed dir with patch.diff, demo_test.go, meta.json> : verifies in a scratch worktree that the
# change compiles, the existing tests pass, the demo fails with it and passes without it. Prints a JSON summary.
set -u
d=$(readlink -f "$1")
wt=/tmp/confirm_$$
export GOFLAGS=-mod=mod GOPROXY=off GOSUMDB=off GOTOOLCHAIN=local
git -C /repo worktree add -q --detach $wt HEAD || exit 2
cd $wt
place=$(head -1 $d/demo_test.go | sed -n 's/.*place in: *\([^ ]*\).*/\1/p')
[ -z "$place" ] && place=server
# only the demonstration's own tests are run (other tests of the package leave package-level store mocks behind)
runre="^($(grep -o '^func Test[A-Za-z0-9_]*' $d/demo_test.go | sed 's/^func //' | paste -sd'|'))\$"
run_demo() { cp $d/demo_test.go $wt/$place/zz_seed_demo_test.go; timeout 900 go test -vet=off -count=1 -tags "${TAGS:-}" -run "$runre" ./$place/ >/tmp/confirm_demo_$$.log 2>&1; rc=$?; rm -f $wt/$place/zz_seed_demo_test.go; return $rc; }
run_demo; clean_rc=$?
git apply $d/patch.diff || { echo '{"applies": false}'; cd /; git -C /repo worktree remove --force $wt; exit 1; }
go build ./server/... >/dev/null 2>&1; b1=$?
go build -tags mysql ./server/... >/dev/null 2>&1; b2=$?
go build -tags postgres ./server/... >/dev/null 2>&1; b3=$?
timeout 900 go test -vet=off -count=1 ./server/ ./server/db/common ./server/drafty ./server/ringhash >/tmp/confirm_tests_$$.log 2>&1; t=$?
run_demo; mut_rc=$?
echo "{\"applies\": true, \"build\": [$b1,$b2,$b3], \"existing_tests_rc\": $t, \"demo_rc_clean\": $clean_rc, \"demo_rc_mutated\": $mut_rc}"
tail -3 /tmp/confirm_demo_$$.log
cd /; git -C /repo worktree remove --force $wt; rm -f /tmp/confirm_demo_$$.log /tmp/confirm_tests_$$.log
