#!/bin/bash
# run_seed.sh <seed id> [prop]: applies the seeded change to /repo, runs the check of its property, reverts.
set -u
id=$1; prop=${2:-${id%%-*}}
cd /verif
[ -n "$(git -C /repo status --porcelain)" ] && { echo "/repo not clean"; exit 2; }
git -C /repo apply /verif/seeded/$id/patch.diff || { echo "patch does not apply"; exit 2; }
timeout 1200 ./check $prop > /tmp/run_seed_$id.log 2>&1; rc=$?
git -C /repo checkout -- .
echo "seed $id prop $prop: exit $rc"; grep -c "^VIOLATION" /tmp/run_seed_$id.log; grep "^VIOLATION" /tmp/run_seed_$id.log | head -5 | cut -c1-200; tail -1 /tmp/run_seed_$id.log
