package main

// Symbolic execution of go/ssa (NaiveForm) with state merging at joins, loop cutting at
// invariants (or complete unrolling with an unwinding assertion), modular calls.

import (
	"os"
	"runtime/debug"
	"fmt"
	"math/big"
	"go/constant"
	"go/token"
	"go/types"
	"sort"
	"strings"

	"golang.org/x/tools/go/ssa"
)

type Obligation struct {
	Name    string
	QFOnly  bool // guard queries: only the quantifier-free assumptions are asserted
	Tags    []string
	Kind    string
	PC      *Term
	Goal    *Term
	NAssume int
	Taint   string
	Src     string
	Fn      string
	// filled by the solver stage
	Status  string // proved failed unknown unsupported
	Backend string
	Seconds float64
	Model   string
	Output  string
	Vacuous bool
}

type writeRec struct {
	pc   *Term
	kind PtrKind
	key  string
	base *Term
	idx  *Term
	nAs  int
}

type VC struct {
	frozen    map[*Term]Val // write-once captured locals: reference of the variable -> the value it was given
	prog      *Prog
	fn        *ssa.Function
	fc        *FuncContract
	reg       *KeyRegistry
	discovery bool
	lateKeys  bool
	dry       int // >0: dry run (loop write-set discovery): no obligations, no assumptions
	assumes   []*Term
	gfacts    []*Term
	obls      []*Obligation
	nextCell  int
	nAlloc    int
	localObjs  map[*Term]*localObj // objects allocated by the function under verification that have not escaped
	guardedMaps map[string]*PtrV // map values loaded from lock-guarded fields -> the field they came from
	localOrder []*Term
	escWhy     string
	guardedFns map[string]bool
	locksafe   bool // accesses to fields declared guarded need the protecting lock
	nooverflow bool // signed additions, subtractions and multiplications must stay within the machine range
	heldBy     map[*Term][]Val
	cellAlloc  map[int]*ssa.Alloc
	matchedAsserts map[*CallAssert]bool
	seenCallees    map[string]bool
	macs       map[*Term]*macState
	lastNow    *Term
	A0        *Term
	allocBase *Term            // current symbolic allocation base (A0, or a fresh base after a loop cut)
	allocBases map[*Term]bool
	cellTypes map[int]types.Type
	dryWrites []writeRec
	entry     *State
	params    map[string]*SV
	locals    map[string]*PtrV
	inlineStk []*ssa.Function
	havocLog  []string
	writes    []writeRec
	used      map[string]bool // trusted/assumed contracts used
	unmod     map[string]bool // unmodelled calls (default frame)
	safe      bool
	callSeq   map[string]int
	oblNames  map[string]int
	typeTags  map[string]int
	boxed     map[*Term]Val
	boxedType map[*Term]types.Type
	funcTerms map[*Term]*FuncV
	extIfaceTags []*Term
	pendingSig *types.Signature
	notes     []string
	tagFilter string
	witnesses []namedTerm
	depth     int
	deferSeq  int
	strDone   map[*Term]bool
	inlineLimit int
	final     *State
	topParams []Val
	topResults []Val
	concretize int
	scratch   int // >0: trial execution of a loop body: obligations suppressed, assumptions rolled back afterwards
	autoInv   []string
	preSat    *Obligation
	canary    *Obligation
}

type namedTerm struct {
	Name string
	T    *Term
}

type Loop struct {
	Header   *ssa.BasicBlock
	Blocks   map[*ssa.BasicBlock]bool
	Parent   *Loop
	Children []*Loop
	N        int
	Pos      token.Pos
	LiveOut  []ssa.Value
}

type FuncCtx struct {
	fn       *ssa.Function
	params   []Val
	freevars []Val
	loops    []*Loop
	loopOf   map[*ssa.BasicBlock]*Loop // innermost
	rpo      []*ssa.BasicBlock
	returns  []retRec
	top      bool
	fc       *FuncContract
	locals   map[string]*PtrV
}

type retRec struct {
	st   *State
	vals []Val
}

type Frame struct {
	regs   map[ssa.Value]Val
	parent *Frame
}

func newFrame(parent *Frame) *Frame { return &Frame{regs: map[ssa.Value]Val{}, parent: parent} }

func (fr *Frame) get(v ssa.Value) (Val, bool) {
	for f := fr; f != nil; f = f.parent {
		if x, ok := f.regs[v]; ok {
			return x, true
		}
	}
	return nil, false
}

// ---------- loop analysis ----------

func analyzeLoops(fn *ssa.Function) ([]*Loop, map[*ssa.BasicBlock]*Loop, []*ssa.BasicBlock) {
	// reverse postorder ignoring back edges
	var rpo []*ssa.BasicBlock
	if len(fn.Blocks) == 0 {
		return nil, nil, nil
	}
	visited := map[*ssa.BasicBlock]bool{}
	var post []*ssa.BasicBlock
	var dfs func(b *ssa.BasicBlock)
	dfs = func(b *ssa.BasicBlock) {
		visited[b] = true
		for i := len(b.Succs) - 1; i >= 0; i-- {
			s := b.Succs[i]
			if !visited[s] {
				dfs(s)
			}
		}
		post = append(post, b)
	}
	dfs(fn.Blocks[0])
	for i := len(post) - 1; i >= 0; i-- {
		rpo = append(rpo, post[i])
	}
	byHeader := map[*ssa.BasicBlock]*Loop{}
	var loops []*Loop
	for _, b := range rpo {
		for _, s := range b.Succs {
			if s.Dominates(b) { // back edge b -> s
				L := byHeader[s]
				if L == nil {
					L = &Loop{Header: s, Blocks: map[*ssa.BasicBlock]bool{s: true}}
					byHeader[s] = L
					loops = append(loops, L)
				}
				// natural loop: nodes reaching b without passing s
				var stack []*ssa.BasicBlock
				if !L.Blocks[b] {
					L.Blocks[b] = true
					stack = append(stack, b)
				}
				for len(stack) > 0 {
					x := stack[len(stack)-1]
					stack = stack[:len(stack)-1]
					for _, p := range x.Preds {
						if !L.Blocks[p] && visited[p] {
							L.Blocks[p] = true
							stack = append(stack, p)
						}
					}
				}
			}
		}
	}
	// positions and nesting
	for _, L := range loops {
		L.Pos = token.NoPos
		for _, in := range L.Header.Instrs {
			if in.Pos() != token.NoPos {
				L.Pos = in.Pos()
				break
			}
		}
		if L.Pos == token.NoPos {
			for b := range L.Blocks {
				for _, in := range b.Instrs {
					if in.Pos() != token.NoPos && (L.Pos == token.NoPos || in.Pos() < L.Pos) {
						L.Pos = in.Pos()
					}
				}
			}
		}
	}
	sort.SliceStable(loops, func(i, j int) bool { return loops[i].Pos < loops[j].Pos })
	for i, L := range loops {
		L.N = i + 1
	}
	for _, L := range loops {
		for _, M := range loops {
			if M != L && M.Blocks[L.Header] && len(M.Blocks) > len(L.Blocks) {
				if L.Parent == nil || len(M.Blocks) < len(L.Parent.Blocks) {
					L.Parent = M
				}
			}
		}
	}
	for _, L := range loops {
		for _, b := range fn.Blocks {
			if !L.Blocks[b] {
				continue
			}
			for _, in := range b.Instrs {
				v, ok := in.(ssa.Value)
				if !ok || v.Referrers() == nil {
					continue
				}
				for _, r := range *v.Referrers() {
					if rb := r.Block(); rb != nil && !L.Blocks[rb] {
						L.LiveOut = append(L.LiveOut, v)
						break
					}
				}
			}
		}
	}
	loopOf := map[*ssa.BasicBlock]*Loop{}
	for _, L := range loops {
		if L.Parent != nil {
			L.Parent.Children = append(L.Parent.Children, L)
		}
		for b := range L.Blocks {
			if cur := loopOf[b]; cur == nil || len(L.Blocks) < len(cur.Blocks) {
				loopOf[b] = L
			}
		}
	}
	return loops, loopOf, rpo
}

func (vc *VC) newFuncCtx(fn *ssa.Function, params, freevars []Val) *FuncCtx {
	fx := &FuncCtx{fn: fn, params: params, freevars: freevars}
	fx.loops, fx.loopOf, fx.rpo = analyzeLoops(fn)
	return fx
}

// ---------- bookkeeping ----------

func (vc *VC) assume(st *State, f *Term) {
	if f.IsConst && f.B {
		return
	}
	if f.IsConst && !f.B && os.Getenv("VERIF_DEBUG_FALSE") != "" {
		debug.PrintStack()
	}
	if vc.dry > 0 {
		return
	}
	f = Implies(st.pc, f)
	if fb := freeBound(f); len(fb) > 0 {
		// produced while evaluating under a quantifier: it holds for every value of the bound variables
		f = Forall(fb, f)
	}
	vc.assumes = append(vc.assumes, f)
}

func (vc *VC) addGlobalFact(f *Term) {
	if f.IsConst && f.B {
		return
	}
	if fb := freeBound(f); len(fb) > 0 {
		f = Forall(fb, f)
	}
	vc.gfacts = append(vc.gfacts, f)
}

// freeBound lists bound variables occurring free in t (memoised over the term DAG).
var freeBoundMemo = map[int][]*Term{}

func freeBound(t *Term) []*Term {
	if r, ok := freeBoundMemo[t.ID]; ok {
		return r
	}
	var out []*Term
	switch {
	case t.IsBound:
		out = []*Term{t}
	case len(t.Args) == 0:
	case t.Op == "forall" || t.Op == "exists":
		binders := map[*Term]bool{}
		for i := 0; i < t.NBind; i++ {
			binders[t.Args[i]] = true
		}
		for _, v := range freeBound(t.Args[t.NBind]) {
			if !binders[v] {
				out = append(out, v)
			}
		}
	default:
		var seen map[*Term]bool
		for _, a := range t.Args {
			fa := freeBound(a)
			if len(fa) == 0 {
				continue
			}
			if seen == nil {
				seen = map[*Term]bool{}
			}
			for _, v := range fa {
				if !seen[v] {
					seen[v] = true
					out = append(out, v)
				}
			}
		}
	}
	freeBoundMemo[t.ID] = out
	return out
}

func (vc *VC) oblige(st *State, name, kind string, goal *Term, tags []string, src string) {
	if vc.dry > 0 || vc.discovery {
		return
	}
	if vc.scratch > 0 {
		// the real pass asserts this; the trial pass may rely on it
		vc.assumes = append(vc.assumes, Implies(st.pc, goal))
		return
	}
	full := vc.fnName() + "#" + name
	vc.oblNames[full]++
	if n := vc.oblNames[full]; n > 1 {
		full = fmt.Sprintf("%s~%d", full, n)
	}
	o := &Obligation{Name: full, Tags: tags, Kind: kind, PC: st.pc, Goal: goal, NAssume: len(vc.assumes), Taint: st.taint, Src: src, Fn: vc.fnName()}
	vc.obls = append(vc.obls, o)
	// once asserted, later code may rely on it (end-of-path obligations have no later code)
	// ... unless it is a recorded finding, or a clause that only another property's check discharges: relying on it here
	// would let a change that breaks it (and is reported there) cut off the paths on which this property's own clauses
	// would have failed
	otherOnly := curProp != "" && len(tags) > 0 && !containsStr(tags, curProp)
	if kind != "loop-keep" && kind != "post" && kind != "unwind" && !recordedFindings[full] && !otherOnly {
		vc.assumes = append(vc.assumes, Implies(st.pc, goal))
	}
}

func (vc *VC) fnName() string {
	return funcDisplayName(vc.fn)
}

func funcDisplayName(fn *ssa.Function) string {
	if fn == nil {
		return "?"
	}
	pk := ""
	if fn.Pkg != nil {
		pk = pkgShort(fn.Pkg.Pkg)
	}
	if fn.Signature.Recv() != nil {
		rn, _ := recvTypeName(fn.Signature)
		return pk + "." + rn + "." + fn.Name()
	}
	return pk + "." + fn.Name()
}

func (vc *VC) noteWrite(st *State, kind PtrKind, key string, base, idx *Term) {
	if vc.scratch > 0 {
		return
	}
	if vc.dry > 0 {
		vc.dryWrites = append(vc.dryWrites, writeRec{kind: kind, key: key, base: base, idx: idx})
		return
	}
	if vc.discovery {
		return
	}
	vc.writes = append(vc.writes, writeRec{pc: st.pc, kind: kind, key: key, base: base, idx: idx, nAs: len(vc.assumes)})
}

func (vc *VC) loadFactsB(st *State, v *Term, t types.Type, bound *Term) {
	if len(freeBound(v)) > 0 {
		return
	}
	if v.Sort.Kind == SInt {
		switch under(t).(type) {
		case *types.Pointer, *types.Map, *types.Chan:
			vc.assume(st, And(Ge(v, IntC(0)), Lt(v, bound)))
			return
		}
	}
	for _, f := range rangeFacts(v, t) {
		vc.assume(st, f)
	}
}

func (vc *VC) loadFacts(st *State, v *Term, t types.Type) {
	if len(freeBound(v)) > 0 {
		// range facts of values read under a quantifier are not needed
		return
	}
	if v.Sort.Kind == SInt {
		switch under(t).(type) {
		case *types.Pointer, *types.Map, *types.Chan:
			vc.assume(st, And(Ge(v, IntC(0)), Lt(v, Add(vc.allocBase, IntC(int64(vc.nAlloc))))))
			return
		}
	}
	for _, f := range rangeFacts(v, t) {
		vc.assume(st, f)
	}
}

func (vc *VC) freshRef() *Term {
	r := Add(vc.allocBase, IntC(int64(vc.nAlloc)))
	vc.nAlloc++
	return r
}

func (vc *VC) typeTag(t types.Type) *Term {
	k := types.TypeString(t, nil)
	if id, ok := vc.typeTags[k]; ok {
		return IntC(int64(id))
	}
	id := len(vc.typeTags) + 1
	vc.typeTags[k] = id
	return IntC(int64(id))
}

func (vc *VC) note(s string) {
	for _, n := range vc.notes {
		if n == s {
			return
		}
	}
	vc.notes = append(vc.notes, s)
}

// ---------- values of SSA operands ----------

func (vc *VC) constVal(c *ssa.Const) Val {
	t := c.Type()
	if c.Value == nil {
		return zeroVal(t)
	}
	if w, ok := isUnsigned(t); ok {
		bi, _ := new(bigI).SetString(c.Value.ExactString(), 10)
		if bi == nil {
			bi = new(bigI)
		}
		return BVBig(bi, w)
	}
	if _, ok := isSignedInt(t); ok {
		bi, _ := new(bigI).SetString(constant.ToInt(c.Value).ExactString(), 10)
		if bi == nil {
			bi = new(bigI)
		}
		return IntBig(bi)
	}
	if isString(t) {
		return StrLit(constant.StringVal(c.Value))
	}
	if isBool(t) {
		return BoolC(constant.BoolVal(c.Value))
	}
	if isFloat(t) {
		return Var("flt:"+c.Value.ExactString(), FloatSort)
	}
	return zeroVal(t)
}

func (vc *VC) val(fx *FuncCtx, fr *Frame, v ssa.Value) Val {
	switch x := v.(type) {
	case *ssa.Const:
		return vc.constVal(x)
	case *ssa.Parameter:
		for i, p := range fx.fn.Params {
			if p == x {
				return fx.params[i]
			}
		}
		panic("unknown parameter")
	case *ssa.FreeVar:
		for i, p := range fx.fn.FreeVars {
			if p == x {
				return fx.freevars[i]
			}
		}
		panic("unknown freevar")
	case *ssa.Global:
		return &PtrV{Kind: PGlobal, Key: "glob:" + pkgShort(x.Pkg.Pkg) + "." + x.Name(), Elem: x.Type().(*types.Pointer).Elem()}
	case *ssa.Function:
		return &FuncV{Fn: x}
	case *ssa.Builtin:
		return &FuncV{Fn: x}
	}
	if r, ok := fr.get(v); ok {
		return r
	}
	// value not computed on this path (e.g. defined in a pruned block)
	fv, _ := vc.freshVal("undef:"+v.Name(), v.Type())
	return fv
}

// ---------- merging ----------

type succState struct {
	to *ssa.BasicBlock
	st *State
}

func (vc *VC) mergeStates(ins []*State) *State {
	if len(ins) == 1 {
		return ins[0]
	}
	out := ins[len(ins)-1].clone()
	pcs := []*Term{out.pc}
	for i := len(ins) - 2; i >= 0; i-- {
		s := ins[i]
		pcs = append(pcs, s.pc)
		// cells
		for id, v := range out.cells {
			sv, ok := s.cells[id]
			if !ok {
				// the variable does not exist yet on that path: its value there is immaterial
				continue
			}
			if sameVal(v, sv) {
				continue
			}
			m, ok := mergeVals(s.pc, sv, v)
			if !ok {
				fv, _ := vc.freshVal("mergefail", nil2any())
				m = fv
				out.setTaint(fmt.Sprintf("incompatible values merged in a local (%T vs %T)", sv, v))
			}
			out.cells[id] = m
		}
		for id, sv := range s.cells {
			if _, ok := out.cells[id]; !ok {
				out.cells[id] = sv
			}
		}
		// heap
		keys := map[string]bool{}
		for k := range out.heap {
			keys[k] = true
		}
		for k := range s.heap {
			keys[k] = true
		}
		for k := range keys {
			ki := vc.reg.m[k]
			a := s.heapVar(ki)
			b := out.heapVar(ki)
			if a != b {
				out.heap[k] = Ite(s.pc, a, b)
			}
		}
		// exported loop registers
		for v, x := range s.xregs {
			if out.xregs == nil {
				out.xregs = map[ssa.Value]Val{}
			}
			y, ok := out.xregs[v]
			if !ok {
				out.xregs[v] = x
				continue
			}
			if sameVal(x, y) {
				continue
			}
			if m, ok := mergeVals(s.pc, x, y); ok {
				out.xregs[v] = m
			} else {
				// the register's value becomes unknown after the join (a later use sees an unconstrained value)
				fv, _ := vc.freshVal("xreg", v.Type())
				out.xregs[v] = fv
			}
		}
		// defers: union by ID
		if !sameDefers(out.defers, s.defers) {
			out.defers = mergeDefers(out, s)
		}
		if s.taint != "" && out.taint == "" {
			out.taint = s.taint
		}
		for k, b := range out.kbase {
			if sb, ok := s.kbase[k]; !ok || sb != b {
				delete(out.kbase, k)
			}
		}
		// held locks
		if s.held != nil || out.held != nil {
			if out.held == nil {
				out.held = map[string]*Term{}
			}
			hk := map[string]bool{}
			for k := range out.held {
				hk[k] = true
			}
			for k := range s.held {
				hk[k] = true
			}
			for k := range hk {
				a, ok1 := s.held[k]
				b, ok2 := out.held[k]
				if !ok1 {
					a = False()
				}
				if !ok2 {
					b = False()
				}
				out.held[k] = Ite(s.pc, a, b)
			}
		}
	}
	out.pc = Or(pcs...)
	return out
}

func nil2any() types.Type { return types.Typ[types.Int] }

func sameDefers(a, b []deferEntry) bool {
	if len(a) != len(b) {
		return false
	}
	for i := range a {
		if a[i].ID != b[i].ID || a[i].Guard != b[i].Guard {
			return false
		}
	}
	return true
}

func mergeDefers(out, s *State) []deferEntry {
	// entries keep their push order by ID; guard records on which paths they were pushed
	m := map[int]deferEntry{}
	var ids []int
	for _, d := range out.defers {
		d.Guard = And(out.pc, d.Guard)
		m[d.ID] = d
		ids = append(ids, d.ID)
	}
	for _, d := range s.defers {
		g := And(s.pc, d.Guard)
		if e, ok := m[d.ID]; ok {
			e.Guard = Or(e.Guard, g)
			m[d.ID] = e
		} else {
			d.Guard = g
			m[d.ID] = d
			ids = append(ids, d.ID)
		}
	}
	sort.Ints(ids)
	var res []deferEntry
	for _, id := range ids {
		res = append(res, m[id])
	}
	return res
}

// ---------- region execution ----------

func (vc *VC) inLoop(fx *FuncCtx, b *ssa.BasicBlock, L *Loop) bool {
	if L == nil {
		return true
	}
	return L.Blocks[b]
}

type phiStash struct {
	vals map[*ssa.Phi]Val
}

// execRegion runs the blocks of loop L (or of the whole function when L is nil) once.
func (vc *VC) execRegion(fx *FuncCtx, L *Loop, entry *State, fr *Frame, entryPhi map[*ssa.Phi]Val) (exits map[*ssa.BasicBlock][]*State, backs []*State) {
	exits = map[*ssa.BasicBlock][]*State{}
	incoming := map[*ssa.BasicBlock][]*State{}
	var header *ssa.BasicBlock
	if L != nil {
		header = L.Header
	} else {
		header = fx.fn.Blocks[0]
	}
	incoming[header] = []*State{entry}
	route := func(from *ssa.BasicBlock, to *ssa.BasicBlock, s *State, f *Frame) {
		if s.pc.IsConst && !s.pc.B && vc.dry == 0 {
			return
		}
		// stash phi operands evaluated in the predecessor's frame
		for _, in := range to.Instrs {
			phi, ok := in.(*ssa.Phi)
			if !ok {
				break
			}
			for i, p := range to.Preds {
				if p == from {
					if s.phis == nil {
						s.phis = map[*ssa.Phi]Val{}
					}
					s.phis[phi] = vc.val(fx, f, phi.Edges[i])
				}
			}
		}
		s.from = from
		if L != nil && to == header {
			backs = append(backs, s)
			return
		}
		if vc.inLoop(fx, to, L) {
			incoming[to] = append(incoming[to], s)
			return
		}
		vc.exportRegs(L, s, f)
		exits[to] = append(exits[to], s)
	}
	first := true
	for _, b := range fx.rpo {
		if !vc.inLoop(fx, b, L) {
			continue
		}
		inner := fx.loopOf[b]
		// skip blocks that belong to a strictly inner loop unless b heads a direct child
		if inner != L {
			// find the child of L that contains b
			c := inner
			for c != nil && c.Parent != L {
				c = c.Parent
			}
			if c == nil || c.Header != b {
				continue
			}
			ins := incoming[b]
			if len(ins) == 0 {
				continue
			}
			st := vc.mergeStates(ins)
			cex := vc.execLoop(fx, c, st, fr, ins)
			for tgt, sts := range cex {
				for _, s := range sts {
					// states leaving the child loop: route relative to this region
					if L != nil && tgt == header {
						backs = append(backs, s)
					} else if vc.inLoop(fx, tgt, L) {
						incoming[tgt] = append(incoming[tgt], s)
					} else {
						vc.exportRegs(L, s, fr)
						exits[tgt] = append(exits[tgt], s)
					}
				}
			}
			continue
		}
		ins := incoming[b]
		if len(ins) == 0 {
			continue
		}
		st := vc.mergeStates(ins)
		// phis
		for _, in := range b.Instrs {
			phi, ok := in.(*ssa.Phi)
			if !ok {
				break
			}
			var v Val
			if first && b == header && entryPhi != nil {
				v = entryPhi[phi]
			} else {
				for i := len(ins) - 1; i >= 0; i-- {
					pv := ins[i].phis[phi]
					if v == nil {
						v = pv
						continue
					}
					m, ok := mergeVals(ins[i].pc, pv, v)
					if !ok {
						fv, _ := vc.freshVal("phi", phi.Type())
						m = fv
						st.setTaint("incompatible phi operands")
					}
					v = m
				}
			}
			if v == nil {
				fv, _ := vc.freshVal("phi", phi.Type())
				v = fv
			}
			fr.regs[phi] = v
		}
		first = false
		st.phis = nil
		for v, x := range st.xregs {
			if _, ok := fr.regs[v]; !ok {
				fr.regs[v] = x
			}
		}
		outs := vc.execBlock(fx, b, st, fr)
		for _, o := range outs {
			route(b, o.to, o.st, fr)
		}
	}
	return exits, backs
}

// exportRegs copies the registers that are live after loop L from the iteration frame into the state.
func (vc *VC) exportRegs(L *Loop, s *State, f *Frame) {
	if L == nil {
		return
	}
	for _, v := range L.LiveOut {
		if x, ok := f.get(v); ok {
			if s.xregs == nil {
				s.xregs = map[ssa.Value]Val{}
			}
			if _, have := s.xregs[v]; !have {
				s.xregs[v] = x
			}
		}
	}
}

// ---------- loops ----------

func (vc *VC) loopSpec(fx *FuncCtx, L *Loop) *LoopSpec {
	if fx.fc == nil {
		return nil
	}
	return fx.fc.Loops[L.N]
}

type snapshot struct {
	cells map[int]Val
	heap  map[string]*Term
}

// loopWrites finds, by a dry run of the body with opaque branch conditions, which cells and
// heap keys the loop may modify.
func (vc *VC) isFreshRef(t *Term) bool {
	if t == nil {
		return false
	}
	if t == vc.allocBase {
		return true
	}
	return t.Op == "+" && len(t.Args) == 2 && t.Args[0] == vc.allocBase && t.Args[1].IsConst && t.Args[1].Int.Sign() >= 0
}

// isOwnAlloc: t is syntactically an object allocated by the function under verification (relative to any of its
// allocation bases: the initial one, those after loop cuts and after calls).
func (vc *VC) isOwnAlloc(t *Term) bool {
	if t == nil {
		return false
	}
	if vc.allocBases[t] {
		return true
	}
	return t.Op == "+" && len(t.Args) == 2 && vc.allocBases[t.Args[0]] && t.Args[1].IsConst && t.Args[1].Int.Sign() >= 0
}

func (vc *VC) loopWrites(fx *FuncCtx, L *Loop, st *State, fr *Frame) (cells []int, keys []string, freshOnly map[string]bool) {
	vc.dry++
	savedCell, savedAlloc := vc.nextCell, vc.nAlloc
	savedBase := vc.allocBase
	lmark := vc.markLocals()
	savedDW := vc.dryWrites
	vc.dryWrites = nil
	s0 := st.clone()
	s0.pc = Fresh("dry", BoolSort)
	f := newFrame(fr)
	// header phis are loop-carried: give them fresh values
	ephi := map[*ssa.Phi]Val{}
	for _, in := range L.Header.Instrs {
		if phi, ok := in.(*ssa.Phi); ok {
			fv, _ := vc.freshVal("phi", phi.Type())
			ephi[phi] = fv
		}
	}
	exits, backs := vc.execRegion(fx, L, s0, f, ephi)
	vc.dry--
	vc.nextCell, vc.nAlloc = savedCell, savedAlloc
	vc.allocBase = savedBase
	vc.resetLocals(lmark)
	notFresh := map[string]bool{}
	for _, w := range vc.dryWrites {
		if w.base == nil {
			// key-level havoc
			for _, name := range vc.reg.sorted() {
				if w.key == "*" || keyHasPrefix(name, w.key) {
					notFresh[name] = true
				}
			}
			continue
		}
		if !vc.isFreshRef(w.base) {
			notFresh[w.key] = true
		}
	}
	vc.dryWrites = append(savedDW, vc.dryWrites...)
	cm := map[int]bool{}
	km := map[string]bool{}
	diff := func(s *State) {
		for id, v := range st.cells {
			if nv, ok := s.cells[id]; ok && !sameVal(v, nv) {
				cm[id] = true
			}
		}
		for k, v := range s.heap {
			if ov, ok := st.heap[k]; !ok || ov != v {
				if !ok {
					if ki := vc.reg.m[k]; ki != nil && v == Var("H0:"+k, ki.Sort) {
						continue
					}
				}
				km[k] = true
			}
		}
	}
	for _, s := range backs {
		diff(s)
	}
	for _, ss := range exits {
		for _, s := range ss {
			diff(s)
		}
	}
	for id := range cm {
		cells = append(cells, id)
	}
	sort.Ints(cells)
	freshOnly = map[string]bool{}
	for k := range km {
		keys = append(keys, k)
		if ki := vc.reg.m[k]; ki != nil && ki.Dims >= 1 && !notFresh[k] {
			freshOnly[k] = true
		}
	}
	sort.Strings(keys)
	return
}

func (vc *VC) execLoop(fx *FuncCtx, L *Loop, st *State, fr *Frame, ins []*State) map[*ssa.BasicBlock][]*State {
	spec := vc.loopSpec(fx, L)
	exitsAll := map[*ssa.BasicBlock][]*State{}
	lname := fmt.Sprintf("loop%d", L.N)
	if !fx.top {
		lname = funcShort(fx.fn) + "." + lname
	}
	// entry values of header phis
	ephi := map[*ssa.Phi]Val{}
	for _, in := range L.Header.Instrs {
		phi, ok := in.(*ssa.Phi)
		if !ok {
			break
		}
		var v Val
		for i := len(ins) - 1; i >= 0; i-- {
			pv := ins[i].phis[phi]
			if v == nil {
				v = pv
				continue
			}
			m, ok := mergeVals(ins[i].pc, pv, v)
			if !ok {
				fv, _ := vc.freshVal("phi", phi.Type())
				m = fv
			}
			v = m
		}
		ephi[phi] = v
	}
	if (spec != nil && spec.Unroll > 0) || vc.concretize > 0 {
		cur := st
		curPhi := ephi
		bound := vc.concretize
		if spec != nil && spec.Unroll > bound {
			bound = spec.Unroll
		}
		for k := 0; k <= bound && cur != nil; k++ {
			f := newFrame(fr)
			exits, backs := vc.execRegion(fx, L, cur, f, curPhi)
			for t, ss := range exits {
				exitsAll[t] = append(exitsAll[t], ss...)
			}
			if len(backs) == 0 {
				cur = nil
				break
			}
			np := map[*ssa.Phi]Val{}
			for phi := range ephi {
				var v Val
				for i := len(backs) - 1; i >= 0; i-- {
					pv := backs[i].phis[phi]
					if v == nil {
						v = pv
						continue
					}
					m, _ := mergeVals(backs[i].pc, pv, v)
					v = m
				}
				np[phi] = v
			}
			curPhi = np
			cur = vc.mergeStates(backs)
			cur.phis = nil
		}
		if cur != nil && vc.concretize == 0 {
			vc.oblige(cur, lname+":unwind", "unwind", False(), tagsOf(fx.fc), fmt.Sprintf("loop %d executes at most %d times", L.N, spec.Unroll))
		}
		return exitsAll
	}
	// invariant mode
	if vc.dry > 0 {
		// inside a dry run: just execute the body once with opaque conditions
		f := newFrame(fr)
		exits, backs := vc.execRegion(fx, L, st, f, ephi)
		for t, ss := range exits {
			exitsAll[t] = append(exitsAll[t], ss...)
		}
		// a second pass from the back-edge state exposes writes that depend on loop-carried values
		_ = backs
		return exitsAll
	}
	var invs []*Clause
	if spec != nil {
		invs = spec.Invariants
	} else if !vc.discovery {
		vc.note(fmt.Sprintf("%s: loop %d has no invariant (cut at 'true')", funcDisplayName(fx.fn), L.N))
	}
	env := vc.specEnvFor(fx, st, fr)
	for _, c := range invs {
		g, err := env.evalBool(c.Expr)
		if err != nil {
			vc.specError(st, lname+":init:"+c.Label, c, err)
			continue
		}
		vc.oblige(st, lname+":init:"+c.Label, "loop-init", g, tagsOf(fx.fc), c.Src)
	}
	// objects allocated by earlier iterations lie between the old and the new allocation base
	oldBase, oldN := vc.allocBase, vc.nAlloc
	newBase := Fresh(fmt.Sprintf("ab.loop%d", L.N), IntSort)
	vc.addGlobalFact(Ge(newBase, Add(oldBase, IntC(int64(oldN)))))
	vc.allocBase, vc.nAlloc = newBase, 0
	vc.allocBases[newBase] = true
	knownAllocBases[newBase] = true
	cells, keys, freshOnly := vc.loopWrites(fx, L, st, fr)
	vc.nAlloc = 0
	if !vc.discovery && vc.scratch == 0 && (len(cells) > 0 || len(keys) > 0) {
		keepCells, keepKeys := vc.inferUnchanged(fx, L, st, fr, ephi, invs, cells, keys, freshOnly, oldBase, oldN)
		var c2 []int
		for _, id := range cells {
			if !keepCells[id] {
				c2 = append(c2, id)
			}
		}
		var k2 []string
		for _, k := range keys {
			if !keepKeys[k] {
				k2 = append(k2, k)
			}
		}
		cells, keys = c2, k2
		vc.nAlloc = 0
	}
	h := st.clone()
	for _, id := range cells {
		old := h.cells[id]
		fv, facts := vc.freshLike(fmt.Sprintf("loop%d.cell%d", L.N, id), old)
		h.cells[id] = fv
		for _, f := range facts {
			vc.assume(h, f)
		}
		// a counter variable (every store in the loop adds a non-negative constant to it) never falls below its
		// entry value (integers are mathematical)
		if ft, ok := fv.(*Term); ok && ft.Sort.Kind == SInt {
			if ot, ok := old.(*Term); ok && ot.Sort.Kind == SInt && isCounterCell(vc.cellAlloc[id], L) {
				vc.assume(h, Ge(ft, ot))
			}
		}
		for _, r := range refComponents(fv) {
			vc.assume(h, Lt(r, newBase))
		}
	}
	for _, k := range keys {
		ki := vc.reg.m[k]
		nh := Fresh(fmt.Sprintf("loop%d:%s", L.N, k), ki.Sort)
		if freshOnly[k] {
			// the loop writes this key only in objects it allocates itself: older objects are untouched
			r := Bound("r", IntSort)
			vc.assume(h, Forall([]*Term{r}, Implies(Lt(r, Add(oldBase, IntC(int64(oldN)))), Eq(Select(nh, r), Select(st.heapVar(ki), r)))))
		}
		h.heap[k] = nh
		h.touchKey(k)
		if monotoneCounters[k] {
			vc.assume(h, Ge(nh, st.heapVar(ki)))
		}
	}
	hphi := map[*ssa.Phi]Val{}
	for phi := range ephi {
		fv, facts := vc.freshVal("phi", phi.Type())
		hphi[phi] = fv
		for _, f := range facts {
			vc.assume(h, f)
		}
		// a counter: every back edge carries phi + k with a constant k >= 0, so the value never falls below its
		// entry value (induction over iterations; integers are mathematical)
		if ft, ok := fv.(*Term); ok && ft.Sort.Kind == SInt {
			if et, ok := ephi[phi].(*Term); ok && et.Sort.Kind == SInt && isUpCounter(phi, L, fx) {
				vc.assume(h, Ge(ft, et))
			}
		}
	}
	henv := vc.specEnvFor(fx, h, fr)
	for _, c := range invs {
		g, err := henv.evalBool(c.Expr)
		if err != nil {
			continue
		}
		vc.assume(h, g)
	}
	f := newFrame(fr)
	// the state at the loop head, before the header block runs (execRegion works on h in place, and the header of a
	// `for { select ... }` loop already receives from channels)
	hHead := h.clone()
	exits, backs := vc.execRegion(fx, L, h, f, hphi)
	for t, ss := range exits {
		exitsAll[t] = append(exitsAll[t], ss...)
	}
	if len(backs) > 0 && spec != nil && len(spec.Iterates) > 0 {
		b := vc.mergeStates(backs)
		benv := vc.specEnvFor(fx, b, f)
		benv.prev = hHead
		for _, c := range spec.Iterates {
			g, err := benv.evalBool(c.Expr)
			if err != nil {
				vc.specError(b, lname+":iter:"+c.Label, c, err)
				continue
			}
			tags := c.Tags
			if len(tags) == 0 {
				tags = tagsOf(fx.fc)
			}
			vc.oblige(b, lname+":iter:"+c.Label, "loop-keep", g, tags, c.Src)
		}
	}
	if len(backs) > 0 && len(invs) > 0 {
		b := vc.mergeStates(backs)
		benv := vc.specEnvFor(fx, b, f)
		for _, c := range invs {
			g, err := benv.evalBool(c.Expr)
			if err != nil {
				vc.specError(b, lname+":keep:"+c.Label, c, err)
				continue
			}
			vc.oblige(b, lname+":keep:"+c.Label, "loop-keep", g, tagsOf(fx.fc), c.Src)
		}
	}
	return exitsAll
}

func funcShort(fn *ssa.Function) string {
	n := fn.Name()
	return n
}

func tagsOf(fc *FuncContract) []string {
	if fc == nil {
		return nil
	}
	return sortedKeys(fc.Tags)
}

func (vc *VC) specError(st *State, name string, c *Clause, err error) {
	if vc.dry > 0 || vc.discovery || vc.scratch > 0 {
		return
	}
	full := vc.fnName() + "#" + name
	o := &Obligation{Name: full, Kind: "stale", PC: st.pc, Goal: False(), NAssume: len(vc.assumes), Taint: "contract clause cannot be resolved: " + err.Error(), Src: c.Src, Fn: vc.fnName()}
	vc.obls = append(vc.obls, o)
}

// inferUnchanged finds, with the solver, which of the cells and heap keys written by a loop body have, on every
// path that returns to the loop head, the value they had on loop entry (e.g. ghost typestate and error variables that
// change only on paths that leave the loop). This is Houdini over the candidate family "x == entry(x)": all
// candidates are assumed at the head, the body is executed, candidates not re-established at the back edge are
// dropped, until the set is stable. The survivors form an inductive invariant and are not havocked.
func (vc *VC) inferUnchanged(fx *FuncCtx, L *Loop, st *State, fr *Frame, ephi map[*ssa.Phi]Val, invs []*Clause, cells []int, keys []string, freshOnly map[string]bool, oldBase *Term, oldN int) (map[int]bool, map[string]bool) {
	keepCells, keepKeys := map[int]bool{}, map[string]bool{}
	enabled := fx.fc != nil && fx.fc.Flags["autoinv"]
	for _, k := range keys {
		if strings.HasPrefix(k, "ghost:") && vc.prog.ghost(strings.TrimPrefix(k, "ghost:")) != nil {
			enabled = true
		}
	}
	if !enabled || len(cells)+len(keys) > 60 {
		return keepCells, keepKeys
	}
	// candidates: ghost state, and locals holding interfaces (error variables) or references
	for _, id := range cells {
		switch st.cells[id].(type) {
		case *IfaceV:
			keepCells[id] = true
		}
	}
	for _, k := range keys {
		if strings.HasPrefix(k, "ghost:") && vc.prog.ghost(strings.TrimPrefix(k, "ghost:")) != nil {
			keepKeys[k] = true
		}
	}
	if fx.fc != nil && fx.fc.Flags["autoinv"] {
		for _, id := range cells {
			keepCells[id] = true
		}
		for _, k := range keys {
			keepKeys[k] = true
		}
	}
	for round := 0; round < 4; round++ {
		vc.scratch++
		mark := len(vc.assumes)
		gmark := len(vc.gfacts)
		savedCell, savedAlloc, savedSeq := vc.nextCell, vc.nAlloc, vc.deferSeq
		savedBase := vc.allocBase
		lmark := vc.markLocals()
		savedCalls := map[string]int{}
		for k, v := range vc.callSeq {
			savedCalls[k] = v
		}
		savedLocals := map[string]*PtrV{}
		for k, v := range fx.locals {
			savedLocals[k] = v
		}
		h := st.clone()
		for _, id := range cells {
			if keepCells[id] {
				continue
			}
			fv, facts := vc.freshLike(fmt.Sprintf("trial.cell%d", id), h.cells[id])
			h.cells[id] = fv
			for _, f := range facts {
				vc.assume(h, f)
			}
		}
		for _, k := range keys {
			if keepKeys[k] {
				continue
			}
			ki := vc.reg.m[k]
			nh := Fresh("trial:"+k, ki.Sort)
			if freshOnly[k] {
				r := Bound("r", IntSort)
				vc.assume(h, Forall([]*Term{r}, Implies(Lt(r, Add(oldBase, IntC(int64(oldN)))), Eq(Select(nh, r), Select(st.heapVar(ki), r)))))
			}
			h.heap[k] = nh
		}
		hphi := map[*ssa.Phi]Val{}
		for phi := range ephi {
			fv, _ := vc.freshVal("phi", phi.Type())
			hphi[phi] = fv
		}
		henv := vc.specEnvFor(fx, h, fr)
		for _, c := range invs {
			if g, err := henv.evalBool(c.Expr); err == nil {
				vc.assume(h, g)
			}
		}
		f := newFrame(fr)
		_, backs := vc.execRegion(fx, L, h, f, hphi)
		dropped := false
		if len(backs) > 0 {
			b := vc.mergeStates(backs)
			base := append(append([]*Term{}, vc.gfacts...), strLitAxioms()...)
			base = append(base, vc.assumes...)
			base = append(base, b.pc)
			try := func(eq *Term) bool {
				if eq.IsConst {
					return eq.B
				}
				sc := Script(append(append([]*Term{}, base...), Not(eq)), nil, "", 0)
				return quickUnsat(sc, 1)
			}
			for _, id := range cells {
				if !keepCells[id] {
					continue
				}
				ov, nv := h.cells[id], b.cells[id]
				if nv == nil || sameVal(ov, nv) {
					continue
				}
				eq, ok := valEq(ov, nv)
				if !ok || !try(eq) {
					delete(keepCells, id)
					dropped = true
				}
			}
			for _, k := range keys {
				if !keepKeys[k] {
					continue
				}
				ov, nv := h.heap[k], b.heap[k]
				if nv == nil || ov == nil || ov == nv {
					continue
				}
				if !try(Eq(ov, nv)) {
					delete(keepKeys, k)
					dropped = true
				}
			}
		}
		vc.scratch--
		vc.assumes = vc.assumes[:mark]
		vc.gfacts = vc.gfacts[:gmark]
		vc.nextCell, vc.nAlloc, vc.deferSeq = savedCell, savedAlloc, savedSeq
		vc.allocBase = savedBase
		vc.resetLocals(lmark)
		vc.callSeq = savedCalls
		for k := range fx.locals {
			delete(fx.locals, k)
		}
		for k, v := range savedLocals {
			fx.locals[k] = v
		}
		if !dropped {
			break
		}
		if round == 3 {
			// no fixpoint within the budget: keep nothing
			return map[int]bool{}, map[string]bool{}
		}
	}
	for id := range keepCells {
		vc.autoInv = append(vc.autoInv, fmt.Sprintf("%s loop %d: local cell %d keeps its entry value at the loop head (inferred, checked by the solver)", funcDisplayName(fx.fn), L.N, id))
	}
	for k := range keepKeys {
		vc.autoInv = append(vc.autoInv, fmt.Sprintf("%s loop %d: %s keeps its entry value at the loop head (inferred, checked by the solver)", funcDisplayName(fx.fn), L.N, k))
	}
	return keepCells, keepKeys
}

// valEq builds the equality of two values of the same shape.
func valEq(a, b Val) (*Term, bool) {
	switch x := a.(type) {
	case *Term:
		y, ok := b.(*Term)
		if !ok || x.Sort != y.Sort {
			return nil, false
		}
		return Eq(x, y), true
	case *SliceV:
		y, ok := b.(*SliceV)
		if !ok {
			return nil, false
		}
		return And(Eq(x.Arr, y.Arr), Eq(x.Off, y.Off), Eq(x.Len, y.Len), Eq(x.Cap, y.Cap)), true
	case *IfaceV:
		y, ok := b.(*IfaceV)
		if !ok {
			return nil, false
		}
		return And(Eq(x.Tag, y.Tag), Or(Eq(x.Tag, IntC(0)), Eq(x.Data, y.Data))), true
	case *StructV:
		y, ok := b.(*StructV)
		if !ok || len(x.F) != len(y.F) {
			return nil, false
		}
		var cs []*Term
		for i := range x.F {
			e, ok := valEq(x.F[i], y.F[i])
			if !ok {
				return nil, false
			}
			cs = append(cs, e)
		}
		return And(cs...), true
	case *PtrV:
		y, ok := b.(*PtrV)
		if !ok || x.Kind != y.Kind || x.Key != y.Key || x.Cell != y.Cell || (x.Idx == nil) != (y.Idx == nil) {
			return nil, false
		}
		cs := []*Term{}
		if x.Base != nil && y.Base != nil {
			cs = append(cs, Eq(x.Base, y.Base))
		}
		if x.Idx != nil {
			cs = append(cs, Eq(x.Idx, y.Idx))
		}
		return And(cs...), true
	}
	return nil, false
}

// refComponents lists the reference-valued parts of a value that name backing arrays or objects.
func refComponents(v Val) []*Term {
	switch x := v.(type) {
	case *SliceV:
		return []*Term{x.Arr}
	case *PtrV:
		if x.Kind == PHeap && x.Base != nil {
			return []*Term{x.Base}
		}
	case *StructV:
		var out []*Term
		for _, f := range x.F {
			out = append(out, refComponents(f)...)
		}
		return out
	}
	return nil
}

// freshLike makes an unconstrained value with the same shape as v.
func (vc *VC) freshLike(prefix string, v Val) (Val, []*Term) {
	switch x := v.(type) {
	case *Term:
		t := Fresh(prefix, x.Sort)
		var facts []*Term
		if x.Sort == StrSort {
			facts = append(facts, Ge(StrLen(t), IntC(0)))
		}
		return t, facts
	case *SliceV:
		sv := &SliceV{Fresh(prefix+"#arr", IntSort), Fresh(prefix+"#off", IntSort), Fresh(prefix+"#len", IntSort), Fresh(prefix+"#cap", IntSort)}
		return sv, sliceFacts(sv)
	case *IfaceV:
		iv := &IfaceV{Fresh(prefix+"#tag", IntSort), Fresh(prefix+"#data", IntSort)}
		return iv, []*Term{Ge(iv.Tag, IntC(0))}
	case *StructV:
		n := &StructV{T: x.T}
		var facts []*Term
		for i, f := range x.F {
			fv, ff := vc.freshVal(prefix+"."+x.T.Field(i).Name(), x.T.Field(i).Type())
			_ = f
			n.F = append(n.F, fv)
			facts = append(facts, ff...)
		}
		return n, facts
	case *ArrV:
		return &ArrV{A: Fresh(prefix+"#a", x.A.Sort), N: x.N}, nil
	case *PtrV:
		if x.Kind == PHeap {
			n := *x
			n.Base = Fresh(prefix+"#ref", IntSort)
			if x.Idx != nil {
				n.Idx = Fresh(prefix+"#idx", x.Idx.Sort)
			}
			return &n, []*Term{Ge(n.Base, IntC(0))}
		}
		return x, nil
	case *TupleV:
		n := &TupleV{}
		var facts []*Term
		for i, e := range x.Vs {
			fv, ff := vc.freshLike(fmt.Sprintf("%s.%d", prefix, i), e)
			n.Vs = append(n.Vs, fv)
			facts = append(facts, ff...)
		}
		return n, facts
	}
	return v, nil
}

// ---------- block execution ----------

func (vc *VC) execBlock(fx *FuncCtx, b *ssa.BasicBlock, st *State, fr *Frame) []succState {
	for _, in := range b.Instrs {
		switch x := in.(type) {
		case *ssa.Phi:
			continue
		case *ssa.If:
			c := vc.val(fx, fr, x.Cond).(*Term)
			if vc.dry > 0 {
				c = Fresh("br", BoolSort)
			}
			t := st.clone()
			t.pc = And(st.pc, c)
			e := st
			e.pc = And(st.pc, Not(c))
			return []succState{{b.Succs[0], t}, {b.Succs[1], e}}
		case *ssa.Jump:
			return []succState{{b.Succs[0], st}}
		case *ssa.Return:
			var vals []Val
			for _, r := range x.Results {
				vals = append(vals, vc.val(fx, fr, r))
			}
			fx.returns = append(fx.returns, retRec{st, vals})
			return nil
		case *ssa.Panic:
			if vc.safe && fx.top {
				vc.oblige(st, "nopanic:explicit", "nopanic", False(), tagsOf(fx.fc), "explicit panic is unreachable")
			} else if vc.safe {
				vc.oblige(st, "nopanic:"+funcShort(fx.fn)+":explicit", "nopanic", False(), tagsOf(vc.fc), "explicit panic in inlined callee is unreachable")
			}
			return nil
		default:
			vc.execInstr(fx, in, st, fr)
			if st.dead {
				return nil
			}
		}
	}
	return nil
}

func (vc *VC) posStr(p token.Pos) string {
	if !p.IsValid() || vc.prog.Fset == nil {
		return "?"
	}
	ps := vc.prog.Fset.Position(p)
	return fmt.Sprintf("%s:%d", strings.TrimPrefix(ps.Filename, vc.prog.Root+"/"), ps.Line)
}

type bigI = big.Int

// isUpCounter: all operands of phi that arrive over back edges of L have the form phi + c with a constant c >= 0.
func isUpCounter(phi *ssa.Phi, L *Loop, fx *FuncCtx) bool {
	b := phi.Block()
	found := false
	for i, pred := range b.Preds {
		if !L.Blocks[pred] {
			continue
		}
		found = true
		bo, ok := phi.Edges[i].(*ssa.BinOp)
		if !ok || bo.Op != token.ADD {
			return false
		}
		var c *ssa.Const
		if bo.X == ssa.Value(phi) {
			c, _ = bo.Y.(*ssa.Const)
		} else if bo.Y == ssa.Value(phi) {
			c, _ = bo.X.(*ssa.Const)
		}
		if c == nil || c.Value == nil {
			return false
		}
		if v, ok := constant.Int64Val(constant.ToInt(c.Value)); !ok || v < 0 {
			return false
		}
	}
	return found
}

// isCounterCell: every store to the local inside the loop writes (load of the same local) + c, c >= 0 constant.
func isCounterCell(a *ssa.Alloc, L *Loop) bool {
	if a == nil || a.Referrers() == nil {
		return false
	}
	found := false
	for _, r := range *a.Referrers() {
		st, ok := r.(*ssa.Store)
		if !ok {
			// loads are fine; anything else (address escapes to a call, field address ...) disqualifies
			if u, isLoad := r.(*ssa.UnOp); isLoad && u.Op == token.MUL {
				continue
			}
			if _, isDbg := r.(*ssa.DebugRef); isDbg {
				continue
			}
			return false
		}
		if st.Addr != ssa.Value(a) {
			return false
		}
		if !L.Blocks[st.Block()] {
			continue
		}
		found = true
		bo, ok := st.Val.(*ssa.BinOp)
		if !ok || bo.Op != token.ADD {
			return false
		}
		var c *ssa.Const
		var ld ssa.Value
		if k, isC := bo.Y.(*ssa.Const); isC {
			c, ld = k, bo.X
		} else if k, isC := bo.X.(*ssa.Const); isC {
			c, ld = k, bo.Y
		}
		u, isLoad := ld.(*ssa.UnOp)
		if c == nil || c.Value == nil || !isLoad || u.Op != token.MUL || u.X != ssa.Value(a) {
			return false
		}
		if v, ok := constant.Int64Val(constant.ToInt(c.Value)); !ok || v < 0 {
			return false
		}
	}
	return found
}
