package main

// Symbolic values, Go type -> SMT sort mapping, heap model (Burstall-Bornat, one array per field).

import (
	"fmt"
	"go/types"
	"math/big"
	"regexp"

	"golang.org/x/tools/go/ssa"
	"sort"
	"strings"
)

type Val interface{}

type SliceV struct {
	Arr, Off, Len, Cap *Term
}

type IfaceV struct {
	Tag, Data *Term
}

type StructV struct {
	T *types.Struct
	F []Val
}

type TupleV struct {
	Vs []Val
}

// SeqV is a spec-only sequence (quantified slice of scalars): content array and length.
type SeqV struct {
	A   *Term
	Len *Term
}

// ArrV is a Go array value [N]T with scalar elements.
type ArrV struct {
	A *Term // (Array Int S)
	N int64
}

type PtrKind int

const (
	PCell PtrKind = iota
	PHeap
	PGlobal
)

type PtrV struct {
	Kind PtrKind
	Cell int
	Path []int // into the value held by the cell
	Base *Term // Ref, for PHeap
	Idx  *Term // element index for 2-D keys
	Key  string
	Elem types.Type // pointee type
	// Alts: the pointer is Alts[i].P under Alts[i].Cond (first match wins), this pointer itself otherwise. Used where
	// paths merge with pointers of different shapes (an element of a slice on one path, a new object on the other).
	Alts []PtrAlt
}

type PtrAlt struct {
	Cond *Term
	P    *PtrV
}

type FuncV struct {
	Fn    interface{} // *ssa.Function
	Bound []Val
	Term  *Term // opaque identity
}

// FuncChoice is a function value that depends on the path taken: Alts[i].F under Alts[i].Cond.
type FuncChoice struct {
	Alts []FuncAlt
}

type FuncAlt struct {
	Cond *Term
	F    *FuncV
}

// ---------- type helpers ----------

func under(t types.Type) types.Type { return t.Underlying() }

func isUnsigned(t types.Type) (int, bool) {
	b, ok := under(t).(*types.Basic)
	if !ok {
		return 0, false
	}
	switch b.Kind() {
	case types.Uint8:
		return 8, true
	case types.Uint16:
		return 16, true
	case types.Uint32:
		return 32, true
	case types.Uint64, types.Uint, types.Uintptr:
		return 64, true
	}
	return 0, false
}

func isSignedInt(t types.Type) (int, bool) {
	b, ok := under(t).(*types.Basic)
	if !ok {
		return 0, false
	}
	switch b.Kind() {
	case types.Int8:
		return 8, true
	case types.Int16:
		return 16, true
	case types.Int32:
		return 32, true
	case types.Int64, types.Int:
		return 64, true
	case types.UntypedInt, types.UntypedRune:
		return 64, true
	}
	return 0, false
}

func isString(t types.Type) bool {
	b, ok := under(t).(*types.Basic)
	return ok && (b.Kind() == types.String || b.Kind() == types.UntypedString)
}

func isBool(t types.Type) bool {
	b, ok := under(t).(*types.Basic)
	return ok && (b.Kind() == types.Bool || b.Kind() == types.UntypedBool)
}

func isFloat(t types.Type) bool {
	b, ok := under(t).(*types.Basic)
	return ok && (b.Info()&types.IsFloat != 0 || b.Info()&types.IsComplex != 0)
}

var FloatSort = &Sort{Kind: SUnint, Name: "F64"}

// scalarSort returns the SMT sort for types represented by a single term, or nil.
func scalarSort(t types.Type) *Sort {
	switch u := under(t).(type) {
	case *types.Basic:
		if w, ok := isUnsigned(t); ok {
			return BVSort(w)
		}
		if _, ok := isSignedInt(t); ok {
			return IntSort
		}
		if isString(t) {
			return StrSort
		}
		if isBool(t) {
			return BoolSort
		}
		if isFloat(t) {
			return FloatSort
		}
		if u.Kind() == types.UnsafePointer {
			return IntSort
		}
		if u.Kind() == types.UntypedNil {
			return IntSort
		}
	case *types.Pointer, *types.Map, *types.Chan, *types.Signature:
		return IntSort
	}
	return nil
}

type comp struct {
	Suffix string
	Sort   *Sort
	Type   types.Type
}

// components flattens a type into named scalar components.
func components(t types.Type) []comp {
	if s := scalarSort(t); s != nil {
		return []comp{{"", s, t}}
	}
	switch u := under(t).(type) {
	case *types.Slice:
		return []comp{{"#arr", IntSort, nil}, {"#off", IntSort, nil}, {"#len", IntSort, nil}, {"#cap", IntSort, nil}}
	case *types.Interface:
		return []comp{{"#tag", IntSort, nil}, {"#data", IntSort, nil}}
	case *types.Struct:
		var out []comp
		for i := 0; i < u.NumFields(); i++ {
			f := u.Field(i)
			for _, c := range components(f.Type()) {
				out = append(out, comp{"." + f.Name() + c.Suffix, c.Sort, c.Type})
			}
		}
		if len(out) == 0 {
			return nil
		}
		return out
	case *types.Array:
		if s := scalarSort(u.Elem()); s != nil {
			return []comp{{"#a", ArraySort(IntSort, s), nil}}
		}
		return []comp{{"#opaque", IntSort, nil}}
	case *types.Tuple:
		return nil
	}
	return []comp{{"#opaque", IntSort, nil}}
}

func pkgShort(p *types.Package) string {
	if p == nil {
		return ""
	}
	if p.Name() == "main" {
		return "main"
	}
	// last two path elements disambiguate e.g. db/mysql vs driver/mysql
	path := p.Path()
	parts := strings.Split(path, "/")
	if len(parts) >= 2 && strings.HasPrefix(path, "github.com/tinode/chat/") {
		return parts[len(parts)-1]
	}
	return strings.ReplaceAll(path, "/", ".")
}

// typeKey is the heap-key prefix for objects of type t.
func typeKey(t types.Type) string {
	switch tt := t.(type) {
	case *types.Named:
		if _, ok := tt.Underlying().(*types.Struct); ok {
			obj := tt.Obj()
			return pkgShort(obj.Pkg()) + "." + obj.Name()
		}
	case *types.Alias:
		return typeKey(types.Unalias(tt))
	}
	if _, ok := t.Underlying().(*types.Struct); ok {
		return "struct<" + canonType(t) + ">"
	}
	return "mem<" + canonType(t) + ">"
}

func qualShort(p *types.Package) string { return pkgShort(p) }

var canonRe = regexp.MustCompile(`\b(byte|rune|any)\b`)

// canonType prints a type with the builtin aliases resolved, so that identical Go types share heap keys.
func canonType(t types.Type) string {
	s := types.TypeString(t, qualShort)
	return canonRe.ReplaceAllStringFunc(s, func(m string) string {
		switch m {
		case "byte":
			return "uint8"
		case "rune":
			return "int32"
		}
		return "interface{}"
	})
}

func elemKey(t types.Type) string {
	return "elem<" + canonType(t) + ">"
}

func mapKey(m *types.Map) string {
	return "map<" + canonType(m.Key()) + "," + canonType(m.Elem()) + ">"
}

// ---------- heap key registry ----------

type KeyInfo struct {
	Name string
	Sort *Sort // full sort of the heap variable (array for dims>0)
	Dims int   // 0 global, 1 object field, 2 array element / map value
	Leaf *Sort
	Idx2 *Sort // index sort of the inner dimension (Int for slices, key sort for maps)
}

type KeyRegistry struct {
	m     map[string]*KeyInfo
	order []string
	added bool
}

func NewKeyRegistry() *KeyRegistry { return &KeyRegistry{m: map[string]*KeyInfo{}} }

func (r *KeyRegistry) get(name string, dims int, leaf *Sort, idx2 *Sort) *KeyInfo {
	if k, ok := r.m[name]; ok {
		if k.Leaf != leaf || k.Dims != dims {
			panic(fmt.Sprintf("heap key %s used with sort %s/%d, before %s/%d", name, leaf, dims, k.Leaf, k.Dims))
		}
		return k
	}
	var s *Sort
	switch dims {
	case 0:
		s = leaf
	case 1:
		s = ArraySort(IntSort, leaf)
	case 2:
		if idx2 == nil {
			idx2 = IntSort
		}
		s = ArraySort(IntSort, ArraySort(idx2, leaf))
	}
	k := &KeyInfo{Name: name, Sort: s, Dims: dims, Leaf: leaf, Idx2: idx2}
	r.m[name] = k
	r.order = append(r.order, name)
	r.added = true
	return k
}

func (r *KeyRegistry) sorted() []string {
	out := append([]string{}, r.order...)
	sort.Strings(out)
	return out
}

// ---------- symbolic state ----------

type deferEntry struct {
	ID    int
	Guard *Term
	Fn    Val
	Args  []Val
	Instr interface{}
}

type State struct {
	vc      *VC
	pc      *Term
	cells   map[int]Val
	heap    map[string]*Term
	defers  []deferEntry
	taint   string
	from    *ssa.BasicBlock // block the state comes from (for phi resolution)
	phis    map[*ssa.Phi]Val
	xregs   map[ssa.Value]Val // registers defined inside a loop that are live after it
	dead    bool
	held    map[string]*Term // ghost: lock held-set (key: lock identity string) -> Bool term
	kbase   map[string]*Term // per heap key: allocation watermark when the key was last written (references stored in it are older)
}

func (st *State) clone() *State {
	n := &State{vc: st.vc, pc: st.pc, taint: st.taint, from: st.from, phis: st.phis}
	n.cells = make(map[int]Val, len(st.cells))
	for k, v := range st.cells {
		n.cells[k] = v
	}
	n.heap = make(map[string]*Term, len(st.heap))
	for k, v := range st.heap {
		n.heap[k] = v
	}
	n.defers = append([]deferEntry{}, st.defers...)
	if st.xregs != nil {
		n.xregs = make(map[ssa.Value]Val, len(st.xregs))
		for k, v := range st.xregs {
			n.xregs[k] = v
		}
	}
	if st.kbase != nil {
		n.kbase = make(map[string]*Term, len(st.kbase))
		for k, x := range st.kbase {
			n.kbase[k] = x
		}
	}
	if st.held != nil {
		n.held = make(map[string]*Term, len(st.held))
		for k, v := range st.held {
			n.held[k] = v
		}
	}
	return n
}

func (st *State) heapVar(k *KeyInfo) *Term {
	if t, ok := st.heap[k.Name]; ok {
		return t
	}
	// lazily materialised: only legal in the discovery pass
	t := Var("H0:"+k.Name, k.Sort)
	st.heap[k.Name] = t
	if !st.vc.discovery {
		st.vc.lateKeys = true
	}
	return t
}

// zeroVal returns the zero value of a type.
func zeroVal(t types.Type) Val {
	if s := scalarSort(t); s != nil {
		return zeroTerm(s)
	}
	switch u := under(t).(type) {
	case *types.Slice:
		return &SliceV{IntC(0), IntC(0), IntC(0), IntC(0)}
	case *types.Interface:
		return &IfaceV{IntC(0), IntC(0)}
	case *types.Struct:
		sv := &StructV{T: u}
		for i := 0; i < u.NumFields(); i++ {
			sv.F = append(sv.F, zeroVal(u.Field(i).Type()))
		}
		return sv
	case *types.Array:
		if s := scalarSort(u.Elem()); s != nil {
			return &ArrV{A: ConstArray(ArraySort(IntSort, s), zeroTerm(s)), N: u.Len()}
		}
	}
	return IntC(0)
}

var strEmpty *Term

func zeroTerm(s *Sort) *Term {
	switch s.Kind {
	case SBool:
		return False()
	case SInt:
		return IntC(0)
	case SBV:
		return BVC(0, s.Width)
	case SArray:
		return ConstArray(s, zeroTerm(s.Elem))
	case SUnint:
		if s == StrSort {
			return StrLit("")
		}
		return Var("zero:"+s.Name, s)
	}
	panic("zeroTerm")
}

// freshVal creates an unconstrained value of the given type; facts about it (ranges) are
// returned as assumptions.
func (vc *VC) freshVal(prefix string, t types.Type) (Val, []*Term) {
	if s := scalarSort(t); s != nil {
		v := Fresh(prefix, s)
		return v, rangeFacts(v, t)
	}
	switch u := under(t).(type) {
	case *types.Slice:
		sv := &SliceV{Fresh(prefix+"#arr", IntSort), Fresh(prefix+"#off", IntSort), Fresh(prefix+"#len", IntSort), Fresh(prefix+"#cap", IntSort)}
		return sv, sliceFacts(sv)
	case *types.Interface:
		iv := &IfaceV{Fresh(prefix+"#tag", IntSort), Fresh(prefix+"#data", IntSort)}
		return iv, []*Term{Ge(iv.Tag, IntC(0))}
	case *types.Struct:
		sv := &StructV{T: u}
		var facts []*Term
		for i := 0; i < u.NumFields(); i++ {
			fv, ff := vc.freshVal(prefix+"."+u.Field(i).Name(), u.Field(i).Type())
			sv.F = append(sv.F, fv)
			facts = append(facts, ff...)
		}
		return sv, facts
	case *types.Array:
		if s := scalarSort(u.Elem()); s != nil {
			return &ArrV{A: Fresh(prefix+"#a", ArraySort(IntSort, s)), N: u.Len()}, nil
		}
	case *types.Tuple:
		tv := &TupleV{}
		var facts []*Term
		for i := 0; i < u.Len(); i++ {
			fv, ff := vc.freshVal(fmt.Sprintf("%s.%d", prefix, i), u.At(i).Type())
			tv.Vs = append(tv.Vs, fv)
			facts = append(facts, ff...)
		}
		return tv, facts
	}
	return Fresh(prefix+"#opaque", IntSort), nil
}

func sliceFacts(sv *SliceV) []*Term {
	return []*Term{Ge(sv.Arr, IntC(0)), Ge(sv.Off, IntC(0)), Ge(sv.Len, IntC(0)), Le(sv.Len, sv.Cap),
		Implies(Eq(sv.Arr, IntC(0)), And(Eq(sv.Len, IntC(0)), Eq(sv.Cap, IntC(0))))}
}

func rangeFacts(v *Term, t types.Type) []*Term {
	if v.Sort.Kind == SInt {
		if w, ok := isSignedInt(t); ok {
			lo := new(big.Int).Lsh(big.NewInt(1), uint(w-1))
			hi := new(big.Int).Sub(lo, big.NewInt(1))
			return []*Term{Ge(v, IntBig(new(big.Int).Neg(lo))), Le(v, IntBig(hi))}
		}
		switch under(t).(type) {
		case *types.Pointer, *types.Map, *types.Chan, *types.Signature:
			return []*Term{Ge(v, IntC(0))}
		}
	}
	if v.Sort == StrSort {
		return []*Term{Ge(StrLen(v), IntC(0))}
	}
	return nil
}

// ---------- strings ----------

var strLits = map[string]*Term{}
var strLitOrder []string

func StrLen(s *Term) *Term   { return App("gstr.len", IntSort, s) }
func StrBytes(s *Term) *Term { return App("gstr.bytes", ArraySort(IntSort, BVSort(8)), s) }
func StrAt(s, i *Term) *Term { return Select(StrBytes(s), i) }

func StrLit(s string) *Term {
	if t, ok := strLits[s]; ok {
		return t
	}
	t := Var(fmt.Sprintf("lit:%q", s), StrSort)
	t.IsVar = true
	strLits[s] = t
	strLitOrder = append(strLitOrder, s)
	return t
}

// strLitValue returns the literal content if t is a literal constant.
func strLitValue(t *Term) (string, bool) {
	for s, l := range strLits {
		if l == t {
			return s, true
		}
	}
	return "", false
}

// strLitAxioms gives length and content of every literal used, plus pairwise distinctness.
func strLitAxioms() []*Term {
	var out []*Term
	var lits []*Term
	for _, s := range strLitOrder {
		l := strLits[s]
		lits = append(lits, l)
		out = append(out, Eq(StrLen(l), IntC(int64(len(s)))))
		for i := 0; i < len(s); i++ {
			out = append(out, Eq(StrAt(l, IntC(int64(i))), BVC(uint64(s[i]), 8)))
		}
	}
	if len(lits) > 1 {
		out = append(out, mk("distinct", BoolSort, lits...))
	}
	return out
}

// StrEq encodes Go string equality. Against a literal the equality is defined by content,
// which gives extensionality exactly where the code needs it.
func (vc *VC) StrEq(a, b *Term) *Term {
	if a == b {
		return True()
	}
	la, oka := strLitValue(a)
	lb, okb := strLitValue(b)
	if oka && okb {
		return BoolC(la == lb)
	}
	if okb {
		a, b, la, oka = b, a, lb, true
	}
	eq := Eq(a, b)
	if oka {
		// a is literal: (a = b) <=> len(b)=n and bytes agree
		cs := []*Term{Eq(StrLen(b), IntC(int64(len(la))))}
		for i := 0; i < len(la); i++ {
			cs = append(cs, Eq(StrAt(b, IntC(int64(i))), BVC(uint64(la[i]), 8)))
		}
		vc.addGlobalFact(Eq(eq, And(cs...)))
	}
	return eq
}


// chanKey names the ghost counters of channels by element type (direction-insensitive).
func chanKey(t types.Type) string {
	if c, ok := t.Underlying().(*types.Chan); ok {
		return canonType(c.Elem())
	}
	return canonType(t)
}

// hasRefs reports whether values of type t contain pointers, slices, maps, channels, interfaces or functions.
func hasRefs(t types.Type) bool {
	switch u := under(t).(type) {
	case *types.Basic:
		return false
	case *types.Struct:
		for i := 0; i < u.NumFields(); i++ {
			if hasRefs(u.Field(i).Type()) {
				return true
			}
		}
		return false
	case *types.Array:
		return hasRefs(u.Elem())
	}
	return true
}
