package main

// SMT term DAG with hash-consing, light simplification and SMT-LIB2 printing.

import (
	"fmt"
	"math/big"
	"sort"
	"strings"
)

type SortKind int

const (
	SBool SortKind = iota
	SInt
	SBV
	SArray
	SUnint
)

type Sort struct {
	Kind  SortKind
	Width int
	Idx   *Sort
	Elem  *Sort
	Name  string
}

var (
	BoolSort = &Sort{Kind: SBool}
	IntSort  = &Sort{Kind: SInt}
	StrSort  = &Sort{Kind: SUnint, Name: "Str"}
	bvSorts  = map[int]*Sort{}
	arrSorts = map[string]*Sort{}
)

func BVSort(w int) *Sort {
	if s, ok := bvSorts[w]; ok {
		return s
	}
	s := &Sort{Kind: SBV, Width: w}
	bvSorts[w] = s
	return s
}

func ArraySort(idx, elem *Sort) *Sort {
	k := idx.String() + "->" + elem.String()
	if s, ok := arrSorts[k]; ok {
		return s
	}
	s := &Sort{Kind: SArray, Idx: idx, Elem: elem}
	arrSorts[k] = s
	return s
}

func (s *Sort) String() string {
	switch s.Kind {
	case SBool:
		return "Bool"
	case SInt:
		return "Int"
	case SBV:
		return fmt.Sprintf("(_ BitVec %d)", s.Width)
	case SArray:
		return "(Array " + s.Idx.String() + " " + s.Elem.String() + ")"
	default:
		return s.Name
	}
}

type Term struct {
	Op   string // operator or symbol name
	Args []*Term
	Sort *Sort
	ID   int
	// constants
	IsConst bool
	Int     *big.Int // for Int and BV constants
	B       bool     // for Bool constants
	// kinds
	IsVar   bool // free constant (declare-const)
	IsBound bool // bound variable
	IsApp   bool // uninterpreted function application (declare-fun)
	NBind   int  // for quantifiers: first NBind args are bound vars
}

type TermPool struct {
	tab   map[string]*Term
	next  int
	fresh int
	funcs map[string]*FuncDecl
	vars  map[string]*Term
}

type FuncDecl struct {
	Name string
	Args []*Sort
	Ret  *Sort
}

var P = NewPool()

func NewPool() *TermPool {
	return &TermPool{tab: map[string]*Term{}, funcs: map[string]*FuncDecl{}, vars: map[string]*Term{}}
}

func (p *TermPool) intern(t *Term) *Term {
	var sb strings.Builder
	sb.WriteString(t.Op)
	sb.WriteByte('|')
	sb.WriteString(t.Sort.String())
	if t.IsConst {
		if t.Int != nil {
			sb.WriteString(t.Int.String())
		} else if t.B {
			sb.WriteString("T")
		} else {
			sb.WriteString("F")
		}
	}
	for _, a := range t.Args {
		fmt.Fprintf(&sb, ",%d", a.ID)
	}
	k := sb.String()
	if e, ok := p.tab[k]; ok {
		return e
	}
	p.next++
	t.ID = p.next
	p.tab[k] = t
	return t
}

// ---------- constructors ----------

func True() *Term  { return P.intern(&Term{Op: "true", Sort: BoolSort, IsConst: true, B: true}) }
func False() *Term { return P.intern(&Term{Op: "false", Sort: BoolSort, IsConst: true, B: false}) }
func BoolC(b bool) *Term {
	if b {
		return True()
	}
	return False()
}

func IntC(v int64) *Term { return IntBig(big.NewInt(v)) }
func IntBig(v *big.Int) *Term {
	return P.intern(&Term{Op: "int", Sort: IntSort, IsConst: true, Int: new(big.Int).Set(v)})
}

func BVC(v uint64, w int) *Term { return BVBig(new(big.Int).SetUint64(v), w) }
func BVBig(v *big.Int, w int) *Term {
	m := new(big.Int).Lsh(big.NewInt(1), uint(w))
	x := new(big.Int).Mod(v, m)
	return P.intern(&Term{Op: "bv", Sort: BVSort(w), IsConst: true, Int: x})
}

// Var returns the free constant with the given name (unique per name).
func Var(name string, s *Sort) *Term {
	if v, ok := P.vars[name]; ok {
		if v.Sort != s {
			panic(fmt.Sprintf("var %s redeclared with sort %s (was %s)", name, s, v.Sort))
		}
		return v
	}
	v := P.intern(&Term{Op: name, Sort: s, IsVar: true})
	P.vars[name] = v
	return v
}

func Fresh(prefix string, s *Sort) *Term {
	P.fresh++
	return Var(fmt.Sprintf("%s!%d", sanitize(prefix), P.fresh), s)
}

func Bound(prefix string, s *Sort) *Term {
	P.fresh++
	return P.intern(&Term{Op: fmt.Sprintf("%s?%d", sanitize(prefix), P.fresh), Sort: s, IsBound: true})
}

func sanitize(s string) string {
	var sb strings.Builder
	for _, c := range s {
		switch {
		case c >= 'a' && c <= 'z', c >= 'A' && c <= 'Z', c >= '0' && c <= '9', c == '_', c == '.', c == '$', c == '#', c == '<', c == '>', c == '-', c == '!', c == '?', c == '@':
			sb.WriteRune(c)
		case c == '*':
			sb.WriteString("ptr.")
		case c == '[' || c == ']':
			sb.WriteString("_")
		case c == '/':
			sb.WriteString(".")
		default:
			sb.WriteString("_")
		}
	}
	return sb.String()
}

// App applies an uninterpreted function.
func App(name string, ret *Sort, args ...*Term) *Term {
	name = sanitize(name)
	fd, ok := P.funcs[name]
	if !ok {
		fd = &FuncDecl{Name: name, Ret: ret}
		for _, a := range args {
			fd.Args = append(fd.Args, a.Sort)
		}
		P.funcs[name] = fd
	} else {
		if len(fd.Args) != len(args) || fd.Ret != ret {
			panic("function " + name + " used with inconsistent signature")
		}
		for i, a := range args {
			if fd.Args[i] != a.Sort {
				panic(fmt.Sprintf("function %s arg %d sort %s, want %s", name, i, a.Sort, fd.Args[i]))
			}
		}
	}
	if len(args) == 0 {
		return Var(name+"!c", ret)
	}
	return P.intern(&Term{Op: name, Args: args, Sort: ret, IsApp: true})
}

func mk(op string, s *Sort, args ...*Term) *Term {
	return P.intern(&Term{Op: op, Args: args, Sort: s})
}

func Not(a *Term) *Term {
	if a.IsConst {
		return BoolC(!a.B)
	}
	if a.Op == "not" {
		return a.Args[0]
	}
	return mk("not", BoolSort, a)
}

func And(as ...*Term) *Term {
	var out []*Term
	seen := map[int]bool{}
	for _, a := range as {
		if a.IsConst {
			if !a.B {
				return False()
			}
			continue
		}
		if a.Op == "and" && !a.IsVar {
			for _, b := range a.Args {
				if !seen[b.ID] {
					seen[b.ID] = true
					out = append(out, b)
				}
			}
			continue
		}
		if !seen[a.ID] {
			seen[a.ID] = true
			out = append(out, a)
		}
	}
	for _, a := range out {
		if a.Op == "not" && seen[a.Args[0].ID] {
			return False()
		}
	}
	if len(out) == 0 {
		return True()
	}
	if len(out) == 1 {
		return out[0]
	}
	return mk("and", BoolSort, out...)
}

func Or(as ...*Term) *Term {
	var out []*Term
	seen := map[int]bool{}
	for _, a := range as {
		if a.IsConst {
			if a.B {
				return True()
			}
			continue
		}
		if a.Op == "or" && !a.IsVar {
			for _, b := range a.Args {
				if !seen[b.ID] {
					seen[b.ID] = true
					out = append(out, b)
				}
			}
			continue
		}
		if !seen[a.ID] {
			seen[a.ID] = true
			out = append(out, a)
		}
	}
	for _, a := range out {
		if a.Op == "not" && seen[a.Args[0].ID] {
			return True()
		}
	}
	if len(out) == 0 {
		return False()
	}
	if len(out) == 1 {
		return out[0]
	}
	return mk("or", BoolSort, out...)
}

func Implies(a, b *Term) *Term {
	if a.IsConst {
		if a.B {
			return b
		}
		return True()
	}
	if b.IsConst {
		if b.B {
			return True()
		}
		return Not(a)
	}
	return mk("=>", BoolSort, a, b)
}

func Iff(a, b *Term) *Term { return Eq(a, b) }

func Eq(a, b *Term) *Term {
	if a.Sort != b.Sort {
		panic(fmt.Sprintf("Eq: sort mismatch %s vs %s (%s, %s)", a.Sort, b.Sort, a.Op, b.Op))
	}
	if a == b {
		return True()
	}
	if a.IsConst && b.IsConst {
		if a.Sort.Kind == SBool {
			return BoolC(a.B == b.B)
		}
		return BoolC(a.Int.Cmp(b.Int) == 0)
	}
	if a.Sort.Kind == SBool {
		if a.IsConst {
			a, b = b, a
		}
		if b.IsConst {
			if b.B {
				return a
			}
			return Not(a)
		}
	}
	if a.ID > b.ID {
		a, b = b, a
	}
	return mk("=", BoolSort, a, b)
}

func Ite(c, a, b *Term) *Term {
	if a.Sort != b.Sort {
		panic(fmt.Sprintf("Ite: sort mismatch %s vs %s", a.Sort, b.Sort))
	}
	if c.IsConst {
		if c.B {
			return a
		}
		return b
	}
	if a == b {
		return a
	}
	if a.Sort.Kind == SBool {
		if a.IsConst && b.IsConst {
			if a.B {
				return c
			}
			return Not(c)
		}
		if a.IsConst {
			if a.B {
				return Or(c, b)
			}
			return And(Not(c), b)
		}
		if b.IsConst {
			if b.B {
				return Or(Not(c), a)
			}
			return And(c, a)
		}
	}
	return mk("ite", a.Sort, c, a, b)
}

// ----- Int arithmetic -----

func intBin(op string, a, b *Term, f func(x, y *big.Int) *big.Int) *Term {
	if a.Sort.Kind != SInt || b.Sort.Kind != SInt {
		panic("int op " + op + " on non-int sorts " + a.Sort.String() + " " + b.Sort.String())
	}
	if a.IsConst && b.IsConst && f != nil {
		if r := f(a.Int, b.Int); r != nil {
			return IntBig(r)
		}
	}
	return mk(op, IntSort, a, b)
}

func Add(a, b *Term) *Term {
	if a.IsConst && a.Int.Sign() == 0 {
		return b
	}
	if b.IsConst && b.Int.Sign() == 0 {
		return a
	}
	// (x + c1) + c2
	if b.IsConst && a.Op == "+" && len(a.Args) == 2 && a.Args[1].IsConst {
		return Add(a.Args[0], IntBig(new(big.Int).Add(a.Args[1].Int, b.Int)))
	}
	return intBin("+", a, b, func(x, y *big.Int) *big.Int { return new(big.Int).Add(x, y) })
}
func Sub(a, b *Term) *Term {
	if b.IsConst {
		return Add(a, IntBig(new(big.Int).Neg(b.Int)))
	}
	if a == b {
		return IntC(0)
	}
	return intBin("-", a, b, func(x, y *big.Int) *big.Int { return new(big.Int).Sub(x, y) })
}
func Mul(a, b *Term) *Term {
	return intBin("*", a, b, func(x, y *big.Int) *big.Int { return new(big.Int).Mul(x, y) })
}

// Go semantics: truncated division. SMT div is floor/euclidean, so encode explicitly.
func QuoGo(a, b *Term) *Term {
	if a.IsConst && b.IsConst && b.Int.Sign() != 0 {
		return IntBig(new(big.Int).Quo(a.Int, b.Int))
	}
	// truncated: sign-corrected
	absA := Ite(Ge(a, IntC(0)), a, Neg(a))
	absB := Ite(Ge(b, IntC(0)), b, Neg(b))
	q := mk("div", IntSort, absA, absB)
	sameSign := Eq(Ge(a, IntC(0)), Ge(b, IntC(0)))
	return Ite(sameSign, q, Neg(q))
}
func RemGo(a, b *Term) *Term {
	if a.IsConst && b.IsConst && b.Int.Sign() != 0 {
		return IntBig(new(big.Int).Rem(a.Int, b.Int))
	}
	return Sub(a, Mul(b, QuoGo(a, b)))
}
func Neg(a *Term) *Term {
	if a.IsConst {
		return IntBig(new(big.Int).Neg(a.Int))
	}
	return mk("-", IntSort, a)
}

func cmpInt(op string, a, b *Term, f func(c int) bool) *Term {
	if a.Sort.Kind != SInt || b.Sort.Kind != SInt {
		panic("int cmp " + op + " on non-int sorts " + a.Sort.String() + " " + b.Sort.String())
	}
	if a.IsConst && b.IsConst {
		return BoolC(f(a.Int.Cmp(b.Int)))
	}
	return mk(op, BoolSort, a, b)
}
func Lt(a, b *Term) *Term {
	if a == b {
		return False()
	}
	return cmpInt("<", a, b, func(c int) bool { return c < 0 })
}
func Le(a, b *Term) *Term {
	if a == b {
		return True()
	}
	return cmpInt("<=", a, b, func(c int) bool { return c <= 0 })
}
func Gt(a, b *Term) *Term { return Lt(b, a) }
func Ge(a, b *Term) *Term { return Le(b, a) }

// ----- bit-vectors -----

func bvMask(w int) *big.Int {
	return new(big.Int).Sub(new(big.Int).Lsh(big.NewInt(1), uint(w)), big.NewInt(1))
}

func BVBin(op string, a, b *Term) *Term {
	if a.Sort != b.Sort || a.Sort.Kind != SBV {
		panic(fmt.Sprintf("BVBin %s: sorts %s %s", op, a.Sort, b.Sort))
	}
	w := a.Sort.Width
	if a.IsConst && b.IsConst {
		x, y := a.Int, b.Int
		var r *big.Int
		switch op {
		case "bvand":
			r = new(big.Int).And(x, y)
		case "bvor":
			r = new(big.Int).Or(x, y)
		case "bvxor":
			r = new(big.Int).Xor(x, y)
		case "bvadd":
			r = new(big.Int).Add(x, y)
		case "bvsub":
			r = new(big.Int).Sub(x, y)
		case "bvmul":
			r = new(big.Int).Mul(x, y)
		case "bvshl":
			if y.Cmp(big.NewInt(int64(w))) >= 0 {
				r = big.NewInt(0)
			} else {
				r = new(big.Int).Lsh(x, uint(y.Int64()))
			}
		case "bvlshr":
			if y.Cmp(big.NewInt(int64(w))) >= 0 {
				r = big.NewInt(0)
			} else {
				r = new(big.Int).Rsh(x, uint(y.Int64()))
			}
		case "bvudiv":
			if y.Sign() != 0 {
				r = new(big.Int).Quo(x, y)
			}
		case "bvurem":
			if y.Sign() != 0 {
				r = new(big.Int).Rem(x, y)
			}
		}
		if r != nil {
			return BVBig(r, w)
		}
	}
	switch op {
	case "bvand":
		if a == b {
			return a
		}
		for _, p := range [][2]*Term{{a, b}, {b, a}} {
			if p[0].IsConst {
				if p[0].Int.Sign() == 0 {
					return p[0]
				}
				if p[0].Int.Cmp(bvMask(w)) == 0 {
					return p[1]
				}
			}
		}
	case "bvor":
		if a == b {
			return a
		}
		for _, p := range [][2]*Term{{a, b}, {b, a}} {
			if p[0].IsConst && p[0].Int.Sign() == 0 {
				return p[1]
			}
		}
	}
	return mk(op, a.Sort, a, b)
}

func BVNot(a *Term) *Term {
	if a.IsConst {
		return BVBig(new(big.Int).Xor(a.Int, bvMask(a.Sort.Width)), a.Sort.Width)
	}
	return mk("bvnot", a.Sort, a)
}
func BVNeg(a *Term) *Term {
	if a.IsConst {
		return BVBig(new(big.Int).Neg(a.Int), a.Sort.Width)
	}
	return mk("bvneg", a.Sort, a)
}

func BVCmp(op string, a, b *Term) *Term {
	if a.Sort != b.Sort || a.Sort.Kind != SBV {
		panic(fmt.Sprintf("BVCmp %s: sorts %s %s", op, a.Sort, b.Sort))
	}
	if a.IsConst && b.IsConst {
		c := a.Int.Cmp(b.Int)
		switch op {
		case "bvult":
			return BoolC(c < 0)
		case "bvule":
			return BoolC(c <= 0)
		case "bvugt":
			return BoolC(c > 0)
		case "bvuge":
			return BoolC(c >= 0)
		}
	}
	return mk(op, BoolSort, a, b)
}

// BVResize zero-extends or truncates to width w.
func BVResize(a *Term, w int) *Term {
	aw := a.Sort.Width
	if aw == w {
		return a
	}
	if a.IsConst {
		return BVBig(a.Int, w)
	}
	if w > aw {
		return P.intern(&Term{Op: fmt.Sprintf("(_ zero_extend %d)", w-aw), Args: []*Term{a}, Sort: BVSort(w)})
	}
	return P.intern(&Term{Op: fmt.Sprintf("(_ extract %d 0)", w-1), Args: []*Term{a}, Sort: BVSort(w)})
}

func BV2Nat(a *Term) *Term {
	if a.IsConst {
		return IntBig(a.Int)
	}
	if a.Op == "int2bv" {
		// not an identity in general; keep
	}
	return mk("bv2nat", IntSort, a)
}

func Int2BV(a *Term, w int) *Term {
	if a.IsConst {
		return BVBig(a.Int, w)
	}
	if a.Op == "bv2nat" && a.Args[0].Sort.Width == w {
		return a.Args[0]
	}
	// symbolic conversion: exact for small non-negative values (the shift counts and indices that occur
	// in the code), an uninterpreted function elsewhere (over-approximation, avoids the solver's int2bv cliff)
	r := App(fmt.Sprintf("int2bv.%d", w), BVSort(w), a)
	lim := 64
	if w < 8 {
		lim = 1<<uint(w) - 1
	}
	for k := lim; k >= 0; k-- {
		r = Ite(Eq(a, IntC(int64(k))), BVC(uint64(k), w), r)
	}
	return r
}

// ----- arrays -----

var selectDepth int

func Select(a, i *Term) *Term {
	if a.Sort.Kind != SArray || a.Sort.Idx != i.Sort {
		panic(fmt.Sprintf("Select: array sort %s index %s", a.Sort, i.Sort))
	}
	// read-over-write on syntactically decidable indices
	cur := a
	for cur.Op == "store" {
		j := cur.Args[1]
		if j == i {
			return cur.Args[2]
		}
		if j.IsConst && i.IsConst {
			cur = cur.Args[0]
			continue
		}
		if distinctOffsets(i, j) {
			cur = cur.Args[0]
			continue
		}
		break
	}
	if cur.Op == "constarr" {
		return cur.Args[0]
	}
	if cur.Op == "ite" && selectDepth < 6 {
		// read through a join: worthwhile when at least one side resolves to a stored value
		selectDepth++
		sa := Select(cur.Args[1], i)
		sb := Select(cur.Args[2], i)
		selectDepth--
		if sa.Op != "select" || sb.Op != "select" {
			return Ite(cur.Args[0], sa, sb)
		}
	}
	return mk("select", a.Sort.Elem, cur, i)
}

// knownAllocBases: symbolic allocation bases of the current verification condition. References allocated from
// different bases are distinct (each later base lies above everything allocated from the earlier ones).
var knownAllocBases = map[*Term]bool{}

// distinctOffsets recognises x+c1 vs x+c2 (c1 != c2), x vs x+c, and fresh references from different allocation bases.
func distinctOffsets(a, b *Term) bool {
	if a.Sort.Kind != SInt {
		return false
	}
	ba, ca := splitOffset(a)
	bb, cb := splitOffset(b)
	if ba == bb {
		return ca.Cmp(cb) != 0
	}
	if ba != nil && bb != nil && knownAllocBases[ba] && knownAllocBases[bb] && ca.Sign() >= 0 && cb.Sign() >= 0 {
		return true
	}
	return false
}

func splitOffset(a *Term) (*Term, *big.Int) {
	if a.IsConst {
		return nil, a.Int
	}
	if a.Op == "+" && len(a.Args) == 2 && a.Args[1].IsConst {
		return a.Args[0], a.Args[1].Int
	}
	return a, big.NewInt(0)
}

func Store(a, i, v *Term) *Term {
	if a.Sort.Kind != SArray || a.Sort.Idx != i.Sort || a.Sort.Elem != v.Sort {
		panic(fmt.Sprintf("Store: array sort %s index %s value %s", a.Sort, i.Sort, v.Sort))
	}
	if a.Op == "store" && a.Args[1] == i {
		return Store(a.Args[0], i, v)
	}
	return mk("store", a.Sort, a, i, v)
}

func ConstArray(s *Sort, v *Term) *Term {
	return P.intern(&Term{Op: "constarr", Args: []*Term{v}, Sort: s})
}

// ----- quantifiers -----

func Forall(bound []*Term, body *Term) *Term {
	if len(bound) == 0 || body.IsConst {
		return body
	}
	args := append(append([]*Term{}, bound...), body)
	return P.intern(&Term{Op: "forall", Args: args, Sort: BoolSort, NBind: len(bound)})
}
func Exists(bound []*Term, body *Term) *Term {
	if len(bound) == 0 || body.IsConst {
		return body
	}
	args := append(append([]*Term{}, bound...), body)
	return P.intern(&Term{Op: "exists", Args: args, Sort: BoolSort, NBind: len(bound)})
}

// Subst replaces terms (typically bound variables or vars) in t.
func Subst(t *Term, m map[*Term]*Term) *Term {
	cache := map[*Term]*Term{}
	var rec func(t *Term) *Term
	rec = func(t *Term) *Term {
		if r, ok := m[t]; ok {
			return r
		}
		if len(t.Args) == 0 {
			return t
		}
		if r, ok := cache[t]; ok {
			return r
		}
		changed := false
		na := make([]*Term, len(t.Args))
		for i, a := range t.Args {
			na[i] = rec(a)
			if na[i] != a {
				changed = true
			}
		}
		r := t
		if changed {
			r = rebuild(t, na)
		}
		cache[t] = r
		return r
	}
	return rec(t)
}

func rebuild(t *Term, na []*Term) *Term {
	switch t.Op {
	case "not":
		return Not(na[0])
	case "and":
		return And(na...)
	case "or":
		return Or(na...)
	case "=>":
		return Implies(na[0], na[1])
	case "=":
		return Eq(na[0], na[1])
	case "ite":
		return Ite(na[0], na[1], na[2])
	case "+":
		if len(na) == 2 {
			return Add(na[0], na[1])
		}
	case "-":
		if len(na) == 2 {
			return Sub(na[0], na[1])
		}
		return Neg(na[0])
	case "<":
		return Lt(na[0], na[1])
	case "<=":
		return Le(na[0], na[1])
	case "select":
		return Select(na[0], na[1])
	case "store":
		return Store(na[0], na[1], na[2])
	case "bvand", "bvor", "bvxor", "bvadd", "bvsub", "bvmul", "bvshl", "bvlshr", "bvudiv", "bvurem":
		return BVBin(t.Op, na[0], na[1])
	case "bvult", "bvule", "bvugt", "bvuge":
		return BVCmp(t.Op, na[0], na[1])
	case "bvnot":
		return BVNot(na[0])
	case "bv2nat":
		return BV2Nat(na[0])
	case "int2bv":
		return Int2BV(na[0], t.Sort.Width)
	}
	nt := *t
	nt.Args = na
	nt.ID = 0
	return P.intern(&nt)
}

// ---------- printing ----------

type Printer struct {
	sb       strings.Builder
	declared map[string]bool
	named    map[int]string
	refs     map[int]int
	sorts    map[string]bool
}

func termHead(t *Term) string {
	switch {
	case t.IsConst:
		switch t.Sort.Kind {
		case SBool:
			if t.B {
				return "true"
			}
			return "false"
		case SInt:
			if t.Int.Sign() < 0 {
				return "(- " + new(big.Int).Neg(t.Int).String() + ")"
			}
			return t.Int.String()
		case SBV:
			w := t.Sort.Width
			if w%4 == 0 {
				return fmt.Sprintf("#x%0*s", w/4, t.Int.Text(16))
			}
			return fmt.Sprintf("#b%0*s", w, t.Int.Text(2))
		}
	}
	return ""
}

func quoteSym(s string) string {
	for _, c := range s {
		if !(c >= 'a' && c <= 'z' || c >= 'A' && c <= 'Z' || c >= '0' && c <= '9' || c == '_' || c == '.' || c == '$' || c == '!' || c == '?' || c == '-' || c == '<' || c == '>' || c == '@') {
			return "|" + s + "|"
		}
	}
	if s != "" && s[0] >= '0' && s[0] <= '9' {
		return "|" + s + "|"
	}
	if strings.HasPrefix(s, "#") {
		return "|" + s + "|"
	}
	return s
}

// Script builds a full SMT-LIB2 script checking satisfiability of the conjunction of asserts.
// getValues lists terms whose values to print when sat.
func Script(asserts []*Term, getValues []*Term, logic string, timeoutMs int) string {
	pr := &Printer{declared: map[string]bool{}, named: map[int]string{}, refs: map[int]int{}, sorts: map[string]bool{}}
	roots := append(append([]*Term{}, asserts...), getValues...)
	// count references
	var count func(t *Term)
	count = func(t *Term) {
		pr.refs[t.ID]++
		if pr.refs[t.ID] > 1 {
			return
		}
		for _, a := range t.Args {
			count(a)
		}
	}
	for _, r := range roots {
		count(r)
	}
	var hdr strings.Builder
	hdr.WriteString("(set-option :produce-models true)\n")
	if logic == "" {
		logic = "ALL"
	}
	hdr.WriteString("(set-logic " + logic + ")\n")
	// declarations in dependency order: collect vars and funcs
	var decls strings.Builder
	var defs strings.Builder
	seen := map[int]bool{}
	var emit func(t *Term, underBinder bool) string
	hasBound := map[int]bool{}
	var hb func(t *Term) bool
	hb = func(t *Term) bool {
		if v, ok := hasBound[t.ID]; ok {
			return v
		}
		r := t.IsBound
		for _, a := range t.Args {
			if hb(a) {
				r = true
			}
		}
		hasBound[t.ID] = r
		return r
	}
	declSort := func(s *Sort) {
		var rec func(s *Sort)
		rec = func(s *Sort) {
			if s.Kind == SUnint && !pr.sorts[s.Name] {
				pr.sorts[s.Name] = true
				fmt.Fprintf(&decls, "(declare-sort %s 0)\n", s.Name)
			}
			if s.Kind == SArray {
				rec(s.Idx)
				rec(s.Elem)
			}
		}
		rec(s)
	}
	emit = func(t *Term, underBinder bool) string {
		if n, ok := pr.named[t.ID]; ok {
			return n
		}
		if h := termHead(t); h != "" {
			return h
		}
		if t.IsBound {
			return quoteSym(t.Op)
		}
		if t.IsVar {
			q := quoteSym(t.Op)
			if !pr.declared[t.Op] {
				pr.declared[t.Op] = true
				declSort(t.Sort)
				fmt.Fprintf(&decls, "(declare-fun %s () %s)\n", q, t.Sort)
			}
			return q
		}
		var s string
		switch {
		case t.Op == "forall" || t.Op == "exists":
			var sb strings.Builder
			sb.WriteString("(" + t.Op + " (")
			for i := 0; i < t.NBind; i++ {
				declSort(t.Args[i].Sort)
				fmt.Fprintf(&sb, "(%s %s)", quoteSym(t.Args[i].Op), t.Args[i].Sort)
			}
			sb.WriteString(") ")
			// shared sub-terms that mention bound variables are bound by nested lets (keeps the text linear in the DAG)
			body := t.Args[t.NBind]
			local := map[int]int{}
			var cnt func(x *Term)
			cnt = func(x *Term) {
				if !hb(x) || x.IsBound {
					return
				}
				if _, named := pr.named[x.ID]; named {
					return
				}
				local[x.ID]++
				if local[x.ID] > 1 {
					return
				}
				for _, a := range x.Args {
					cnt(a)
				}
			}
			cnt(body)
			var lets []*Term
			doneLet := map[int]bool{}
			var order func(x *Term)
			order = func(x *Term) {
				if !hb(x) || x.IsBound || doneLet[x.ID] {
					return
				}
				if _, named := pr.named[x.ID]; named {
					return
				}
				doneLet[x.ID] = true
				if x.Op == "forall" || x.Op == "exists" {
					// inner quantifiers manage their own sharing
					if local[x.ID] > 1 && x != body {
						lets = append(lets, x)
					}
					return
				}
				for _, a := range x.Args {
					order(a)
				}
				if local[x.ID] > 1 && x != body {
					lets = append(lets, x)
				}
			}
			order(body)
			var added []int
			for _, lt := range lets {
				txt := emit(lt, true)
				name := fmt.Sprintf("$b%d", lt.ID)
				fmt.Fprintf(&sb, "(let ((%s %s)) ", name, txt)
				pr.named[lt.ID] = name
				added = append(added, lt.ID)
			}
			sb.WriteString(emit(body, true))
			for range lets {
				sb.WriteString(")")
			}
			for _, id := range added {
				delete(pr.named, id)
			}
			sb.WriteString(")")
			s = sb.String()
		case t.Op == "constarr":
			declSort(t.Sort)
			s = fmt.Sprintf("((as const %s) %s)", t.Sort, emit(t.Args[0], underBinder))
		case t.Op == "int2bv":
			s = fmt.Sprintf("((_ int2bv %d) %s)", t.Sort.Width, emit(t.Args[0], underBinder))
		default:
			op := t.Op
			if t.IsApp {
				if !pr.declared["fn:"+op] {
					pr.declared["fn:"+op] = true
					fd := P.funcs[op]
					var as []string
					for _, a := range fd.Args {
						declSort(a)
						as = append(as, a.String())
					}
					declSort(fd.Ret)
					fmt.Fprintf(&decls, "(declare-fun %s (%s) %s)\n", quoteSym(op), strings.Join(as, " "), fd.Ret)
				}
				op = quoteSym(op)
			}
			var sb strings.Builder
			sb.WriteString("(" + op)
			for _, a := range t.Args {
				sb.WriteByte(' ')
				sb.WriteString(emit(a, underBinder))
			}
			sb.WriteString(")")
			s = sb.String()
		}
		// share closed sub-terms referenced more than once
		if pr.refs[t.ID] > 1 && !hb(t) && !seen[t.ID] {
			seen[t.ID] = true
			name := fmt.Sprintf("$t%d", t.ID)
			declSort(t.Sort)
			fmt.Fprintf(&defs, "(define-fun %s () %s %s)\n", name, t.Sort, s)
			pr.named[t.ID] = name
			return name
		}
		return s
	}
	var body strings.Builder
	for _, a := range asserts {
		s := emit(a, false)
		// definitions created while emitting must precede the assert; we accumulate
		// defs and asserts in one ordered stream
		body.WriteString(defs.String())
		defs.Reset()
		fmt.Fprintf(&body, "(assert %s)\n", s)
	}
	var gv strings.Builder
	if len(getValues) > 0 {
		var parts []string
		for _, g := range getValues {
			parts = append(parts, emit(g, false))
		}
		body.WriteString(defs.String())
		defs.Reset()
		gv.WriteString("(get-value (" + strings.Join(parts, " ") + "))\n")
	}
	_ = sort.Strings
	return hdr.String() + decls.String() + body.String() + "(check-sat)\n" + gv.String()
}

// TermSize counts distinct nodes reachable from the given roots.
func TermSize(roots []*Term) int {
	seen := map[int]bool{}
	var rec func(t *Term)
	rec = func(t *Term) {
		if seen[t.ID] {
			return
		}
		seen[t.ID] = true
		for _, a := range t.Args {
			rec(a)
		}
	}
	for _, r := range roots {
		rec(r)
	}
	return len(seen)
}
