package main

import (
	"fmt"
	"os"
	"runtime"
)

// Escape tracking for objects allocated by the function under verification.
//
// The heap is split by type ("map<string,interface{}>", "main.Topic.owner", ...), so a callee whose frame contains
// a key is assumed to change every object of that type. That is needlessly weak for the caller's own temporaries: a
// map made by the caller that has not been handed to anybody (stored in the heap, passed to a call that is not
// executed in place, sent on a channel, captured by an escaping closure) cannot be reached by the callee. Rows of such
// objects are restored after a key-level havoc.
//
// The marks are monotone and path-insensitive (an object that escapes on one path counts as escaped everywhere
// afterwards), which errs on the safe side; loops run a dry pass over their body first, so an escape late in the body
// is known before the head's havoc.

type localObj struct {
	ref    *Term
	prefix string
}

func (vc *VC) noteLocal(ref *Term, prefix string) {
	if vc.localObjs == nil {
		vc.localObjs = map[*Term]*localObj{}
	}
	vc.localObjs[ref] = &localObj{ref: ref, prefix: prefix}
	vc.localOrder = append(vc.localOrder, ref)
}

func (vc *VC) escapeAll() {
	for r := range vc.localObjs {
		delete(vc.localObjs, r)
	}
}

// markEscaped removes from the set of unescaped locals every object mentioned by v.
func (vc *VC) markEscaped(st *State, v Val) {
	if len(vc.localObjs) == 0 || v == nil {
		return
	}
	seenT := map[*Term]bool{}
	seenC := map[int]bool{}
	var pending []Val
	var term func(t *Term)
	term = func(t *Term) {
		if t == nil || seenT[t] {
			return
		}
		seenT[t] = true
		if _, ok := vc.localObjs[t]; ok {
			delete(vc.localObjs, t)
			if held := vc.heldBy[t]; len(held) > 0 {
				delete(vc.heldBy, t)
				pending = append(pending, held...)
			}
			if os.Getenv("VERIF_DEBUG_ESC") != "" {
				_, f1, l1, _ := runtime.Caller(3)
				_, f2, l2, _ := runtime.Caller(4)
				fmt.Fprintf(os.Stderr, "escape %s (%s) at %s:%d <- %s:%d\n", t.Op, vc.escWhy, f1, l1, f2, l2)
			}
			// what the escaping object holds escapes with it only through the heap, and stores into the heap
			// have already been accounted for when they happened
		}
		if t.Op == "+" && len(t.Args) == 2 && knownAllocBases[t.Args[0]] && t.Args[1].IsConst {
			// a reference base+k: atomic (base itself is the reference with k = 0, a different object)
			return
		}
		if t.Op == "select" || t.Op == "store" {
			// values read from the heap are references that escaped earlier
			return
		}
		for _, a := range t.Args {
			term(a)
		}
	}
	var val func(v Val)
	val = func(v Val) {
		switch x := v.(type) {
		case *Term:
			term(x)
			if bv, ok := vc.boxed[x]; ok {
				val(bv)
			}
		case *PtrV:
			if x.Kind == PCell {
				if !seenC[x.Cell] {
					seenC[x.Cell] = true
					if st != nil {
						if cv, ok := st.cells[x.Cell]; ok {
							val(cv)
						}
					}
				}
				return
			}
			term(x.Base)
			term(x.Idx)
		case *SliceV:
			term(x.Arr)
		case *IfaceV:
			term(x.Data)
			if bv, ok := vc.boxed[x.Data]; ok {
				val(bv)
			}
		case *StructV:
			for _, f := range x.F {
				val(f)
			}
		case *TupleV:
			for _, f := range x.Vs {
				val(f)
			}
		case *FuncV:
			if len(x.Bound) > 0 {
				for _, b := range x.Bound {
					val(b)
				}
			}
		case *FuncChoice:
			for _, a := range x.Alts {
				val(a.F)
			}
		}
	}
	val(v)
	for len(pending) > 0 {
		x := pending[len(pending)-1]
		pending = pending[:len(pending)-1]
		val(x)
	}
}

// restoreLocals puts back, after key `name` was havocked, the rows of the caller's unescaped objects.
func (st *State) restoreLocals(name string, before *Term) {
	vc := st.vc
	if len(vc.localObjs) == 0 || before == nil {
		return
	}
	ki := vc.reg.m[name]
	if ki == nil || ki.Sort.Kind != SArray || ki.Dims < 1 {
		return
	}
	cur := st.heap[name]
	for _, r := range vc.localOrder {
		lo, ok := vc.localObjs[r]
		if !ok || !keyHasPrefix(name, lo.prefix) {
			continue
		}
		cur = Store(cur, r, Select(before, r))
	}
	st.heap[name] = cur
}

// Scratch executions (dry runs over loop bodies, inference rounds) re-use allocation numbers: objects registered
// during them are dropped afterwards, escapes of older objects found by them are kept.
type localsMark struct {
	keys   map[*Term]bool
	order  int
	frozen map[*Term]bool
}

func (vc *VC) markLocals() localsMark {
	m := localsMark{keys: map[*Term]bool{}, order: len(vc.localOrder), frozen: map[*Term]bool{}}
	for r := range vc.frozen {
		m.frozen[r] = true
	}
	for r := range vc.localObjs {
		m.keys[r] = true
	}
	return m
}

func (vc *VC) resetLocals(m localsMark) {
	for r := range vc.frozen {
		if !m.frozen[r] {
			delete(vc.frozen, r)
		}
	}
	for r := range vc.localObjs {
		if !m.keys[r] {
			delete(vc.localObjs, r)
		}
	}
	if len(vc.localOrder) > m.order {
		vc.localOrder = vc.localOrder[:m.order]
	}
}
