package main

// Counterexample replay: a model of a failed obligation is turned into a Go test that calls the
// real function (injected with go test -overlay, nothing is written under /repo); the observed
// results are fed back into the same query. If the query stays satisfiable with inputs and
// observed outputs pinned, the real code violates the clause on that input.

import (
	"bytes"
	"encoding/json"
	"fmt"
	"go/types"
	"math/big"
	"os"
	"os/exec"
	"path/filepath"
	"strings"

	"golang.org/x/tools/go/ssa"
)

const replayElems = 12

type witness struct {
	Name  string
	T     types.Type
	Kind  string // int uint bool string bytes error uintslice struct-slice
	Terms []*Term
	Len   *Term
	// for struct slices
	Fields []string
	FTerms [][]*Term
	FTypes []types.Type
}

func (vc *VC) witnessOf(name string, v Val, t types.Type, st *State) *witness {
	w := &witness{Name: name, T: t}
	switch x := v.(type) {
	case *Term:
		switch {
		case x.Sort.Kind == SBool:
			w.Kind = "bool"
			w.Terms = []*Term{x}
		case x.Sort.Kind == SInt:
			if _, ok := isSignedInt(t); !ok {
				return nil
			}
			w.Kind = "int"
			w.Terms = []*Term{x}
		case x.Sort.Kind == SBV:
			w.Kind = "uint"
			w.Terms = []*Term{x}
		case x.Sort == StrSort:
			w.Kind = "string"
			w.Len = StrLen(x)
			for i := 0; i < replayElems; i++ {
				w.Terms = append(w.Terms, StrAt(x, IntC(int64(i))))
			}
		default:
			return nil
		}
		return w
	case *IfaceV:
		if types.Identical(t, types.Universe.Lookup("error").Type()) {
			w.Kind = "error"
			w.Terms = []*Term{x.Tag}
			return w
		}
		return nil
	case *SliceV:
		et := under(t).(*types.Slice).Elem()
		w.Len = x.Len
		if s := scalarSort(et); s != nil && (s.Kind == SBV || s.Kind == SInt) {
			w.Kind = "scalarslice"
			ki := vc.reg.m[elemKey(et)]
			if ki == nil {
				return nil
			}
			h := st.heapVar(ki)
			for i := 0; i < replayElems; i++ {
				w.Terms = append(w.Terms, Select(Select(h, x.Arr), Add(x.Off, IntC(int64(i)))))
			}
			return w
		}
		if stt, ok := under(et).(*types.Struct); ok {
			w.Kind = "structslice"
			for f := 0; f < stt.NumFields(); f++ {
				ft := stt.Field(f).Type()
				s := scalarSort(ft)
				if s == nil || (s.Kind != SBV && s.Kind != SInt && s.Kind != SBool) {
					return nil
				}
				ki := vc.reg.m[elemKey(et)+"."+stt.Field(f).Name()]
				var ts []*Term
				for i := 0; i < replayElems; i++ {
					if ki == nil {
						ts = append(ts, zeroTerm(s))
						continue
					}
					ts = append(ts, Select(Select(st.heapVar(ki), x.Arr), Add(x.Off, IntC(int64(i)))))
				}
				w.Fields = append(w.Fields, stt.Field(f).Name())
				w.FTerms = append(w.FTerms, ts)
				w.FTypes = append(w.FTypes, ft)
			}
			return w
		}
		return nil
	case *PtrV:
		return nil
	}
	return nil
}

// ---- model parsing ----

type sexp struct {
	atom string
	list []*sexp
}

func parseSexp(s string) []*sexp {
	var toks []string
	i := 0
	for i < len(s) {
		c := s[i]
		switch {
		case c == '(' || c == ')':
			toks = append(toks, string(c))
			i++
		case c == ' ' || c == '\n' || c == '\t' || c == '\r':
			i++
		case c == '|':
			j := strings.IndexByte(s[i+1:], '|')
			if j < 0 {
				j = len(s) - i - 2
			}
			toks = append(toks, s[i:i+j+2])
			i += j + 2
		case c == '"':
			j := i + 1
			for j < len(s) && s[j] != '"' {
				j++
			}
			toks = append(toks, s[i:j+1])
			i = j + 1
		default:
			j := i
			for j < len(s) && !strings.ContainsRune("() \n\t\r", rune(s[j])) {
				j++
			}
			toks = append(toks, s[i:j])
			i = j
		}
	}
	p := 0
	var parse func() *sexp
	parse = func() *sexp {
		if p >= len(toks) {
			return nil
		}
		t := toks[p]
		p++
		if t == "(" {
			n := &sexp{}
			for p < len(toks) && toks[p] != ")" {
				n.list = append(n.list, parse())
			}
			p++
			return n
		}
		return &sexp{atom: t}
	}
	var out []*sexp
	for p < len(toks) {
		out = append(out, parse())
	}
	return out
}

func sexpValue(e *sexp) (*big.Int, bool) {
	if e == nil {
		return nil, false
	}
	if e.atom != "" {
		a := e.atom
		switch {
		case a == "true":
			return big.NewInt(1), true
		case a == "false":
			return big.NewInt(0), true
		case strings.HasPrefix(a, "#x"):
			v, ok := new(big.Int).SetString(a[2:], 16)
			return v, ok
		case strings.HasPrefix(a, "#b"):
			v, ok := new(big.Int).SetString(a[2:], 2)
			return v, ok
		default:
			v, ok := new(big.Int).SetString(a, 10)
			return v, ok
		}
	}
	if len(e.list) == 2 && e.list[0].atom == "-" {
		v, ok := sexpValue(e.list[1])
		if ok {
			return new(big.Int).Neg(v), true
		}
	}
	if len(e.list) == 3 && e.list[0].atom == "_" && strings.HasPrefix(e.list[1].atom, "bv") {
		v, ok := new(big.Int).SetString(e.list[1].atom[2:], 10)
		return v, ok
	}
	return nil, false
}

// getValues runs one solver on the script with a get-value request; returns values in order.
func getValues(asserts []*Term, terms []*Term, path string, timeoutS int) ([]*big.Int, bool) {
	script := Script(asserts, terms, "", 0)
	os.WriteFile(path, []byte(script), 0o644)
	for _, s := range [][]string{{"z3-new", fmt.Sprintf("-T:%d", timeoutS), "-smt2", path}, {"/usr/bin/z3", fmt.Sprintf("-T:%d", timeoutS), "-smt2", path}} {
		var out bytes.Buffer
		cmd := exec.Command(s[0], s[1:]...)
		cmd.Stdout = &out
		cmd.Run()
		o := out.String()
		if !strings.HasPrefix(strings.TrimSpace(o), "sat") {
			continue
		}
		rest := o[strings.Index(o, "sat")+3:]
		es := parseSexp(rest)
		if len(es) == 0 || len(es[0].list) != len(terms) {
			continue
		}
		var vals []*big.Int
		ok := true
		for _, pair := range es[0].list {
			if len(pair.list) != 2 {
				ok = false
				break
			}
			v, vok := sexpValue(pair.list[1])
			if !vok {
				ok = false
				break
			}
			vals = append(vals, v)
		}
		if ok {
			return vals, true
		}
	}
	return nil, false
}

func obligationAsserts(fr *FuncResult, o *Obligation) []*Term {
	var asserts []*Term
	asserts = append(asserts, fr.GFacts...)
	n := o.NAssume
	if n > len(fr.Assumes) {
		n = len(fr.Assumes)
	}
	asserts = append(asserts, fr.Assumes[:n]...)
	asserts = append(asserts, o.PC, skolemizeNegGoal(o.Goal))
	// terms are hash-consed: drop repeated assertions (the same fact is often assumed at every use)
	seen := map[*Term]bool{}
	out := asserts[:0:0]
	for _, a := range asserts {
		if a == nil || seen[a] || (a.IsConst && a.B) {
			continue
		}
		if o.QFOnly && hasQuantTerm(a) {
			// reachability guards ask whether the quantifier-free part of the assumptions is already
			// contradictory (if it is, so is the whole); quantified facts only make "sat" undecidable
			continue
		}
		seen[a] = true
		out = append(out, a)
	}
	return out
}

type concrete struct {
	w    *witness
	vals []*big.Int // scalar/elements
	n    int64
	f    [][]*big.Int
}

func (c *concrete) pin() []*Term {
	var out []*Term
	eq := func(t *Term, v *big.Int) *Term {
		switch t.Sort.Kind {
		case SBool:
			return Eq(t, BoolC(v.Sign() != 0))
		case SInt:
			return Eq(t, IntBig(v))
		case SBV:
			return Eq(t, BVBig(v, t.Sort.Width))
		}
		return True()
	}
	w := c.w
	switch w.Kind {
	case "bool", "int", "uint":
		out = append(out, eq(w.Terms[0], c.vals[0]))
	case "error":
		if c.vals[0].Sign() == 0 {
			out = append(out, Eq(w.Terms[0], IntC(0)))
		} else {
			out = append(out, Not(Eq(w.Terms[0], IntC(0))))
		}
	case "string", "scalarslice":
		out = append(out, Eq(w.Len, IntC(c.n)))
		for i := int64(0); i < c.n && i < replayElems; i++ {
			out = append(out, eq(w.Terms[i], c.vals[i]))
		}
	case "structslice":
		out = append(out, Eq(w.Len, IntC(c.n)))
		for f := range w.Fields {
			for i := int64(0); i < c.n && i < replayElems; i++ {
				out = append(out, eq(w.FTerms[f][i], c.f[f][i]))
			}
		}
	}
	return out
}

func goLit(t types.Type, v *big.Int) string {
	ts := types.TypeString(t, func(p *types.Package) string { return "" })
	if isBool(t) {
		if v.Sign() != 0 {
			return "true"
		}
		return "false"
	}
	return fmt.Sprintf("%s(%s)", ts, v.String())
}

func tryReplay(prog *Prog, fr *FuncResult, o *Obligation, timeoutS int) (string, map[string]any) {
	vc := fr.VC
	if vc == nil || vc.fn == nil || fr.Final == nil {
		return "", nil
	}
	concretised := false
	if loops, _, _ := analyzeLoops(vc.fn); len(loops) > 0 && fr.FC != nil {
		// loops were cut at invariants: models of the cut program need not be real executions.
		// Search the bounded unrolling instead (complete executions with at most 4 iterations per loop).
		cfr := VerifyFuncMode(prog, fr.FC, 4)
		var co *Obligation
		for _, x := range cfr.Obls {
			if x.Name == o.Name {
				co = x
			}
		}
		if cfr.Err != "" || co == nil || cfr.Final == nil {
			return "", map[string]any{"replay_note": "obligation has no counterpart in the bounded unrolling"}
		}
		fr, o, vc = cfr, co, cfr.VC
		concretised = true
	}
	fn := vc.fn
	sig := fn.Signature
	// inputs
	var ins []*witness
	for i, p := range fn.Params {
		v := fr.Params[i]
		t := p.Type()
		if pt, ok := under(t).(*types.Pointer); ok && i == 0 && sig.Recv() != nil && scalarSort(pt.Elem()) != nil {
			// pointer receiver to a scalar: value before the call
			pv := asPtr(v, pt.Elem())
			w := vc.witnessOf(p.Name(), vc.entry.load(pv), pt.Elem(), vc.entry)
			if w == nil {
				return "", nil
			}
			w.Name = "*" + p.Name()
			ins = append(ins, w)
			continue
		}
		w := vc.witnessOf(p.Name(), v, t, vc.entry)
		if w == nil {
			return "", map[string]any{"replay_note": "parameter " + p.Name() + " of type " + t.String() + " is outside the replay generator's reach"}
		}
		ins = append(ins, w)
	}
	dir := replayWorkDir()
	os.MkdirAll(dir, 0o755)
	asserts := obligationAsserts(fr, o)
	// lengths bounded so that the model is small enough to write down
	var small []*Term
	var terms []*Term
	for _, w := range ins {
		if w.Len != nil {
			small = append(small, Le(w.Len, IntC(replayElems)))
			terms = append(terms, w.Len)
		}
		terms = append(terms, w.Terms...)
		for _, ft := range w.FTerms {
			terms = append(terms, ft...)
		}
	}
	vals, ok := getValues(append(append([]*Term{}, asserts...), small...), terms, filepath.Join(dir, fileSafe(o.Name)+"_model.smt2"), timeoutS)
	if !ok {
		return "", map[string]any{"replay_note": "no small model (all slice/string inputs of length <= 12) was found"}
	}
	// decode
	k := 0
	var cins []*concrete
	for _, w := range ins {
		c := &concrete{w: w}
		if w.Len != nil {
			c.n = vals[k].Int64()
			k++
		}
		c.vals = vals[k : k+len(w.Terms)]
		k += len(w.Terms)
		for range w.FTerms {
			c.f = append(c.f, vals[k:k+replayElems])
			k += replayElems
		}
		cins = append(cins, c)
	}
	src, testName, inputsDesc := genReplayTest(fn, cins)
	if src == "" {
		return "", map[string]any{"replay_note": "no test generator for this signature"}
	}
	pkgDir := strings.TrimPrefix(fn.Pkg.Pkg.Path(), repoModule+"/")
	tags := "verif"
	out, _ := runGoTest(pkgDir, src, testName, tags)
	extra := map[string]any{"concretised_unrolling": concretised, "go_test": src, "package_dir": pkgDir, "test_name": testName, "build_tags": tags, "inputs": inputsDesc, "real_output": lastLines(out, 6)}
	// parse observed results
	idx := strings.Index(out, "VERIF-REPLAY ")
	if idx < 0 {
		if strings.Contains(out, "panic:") && strings.Contains(out, "goroutine") {
			extra["replay_note"] = "the real function panicked on the counterexample input"
			if o.Kind == "safety" || o.Kind == "nopanic" || o.Kind == "call-pre" {
				return "reproduced", extra
			}
		}
		return "", extra
	}
	line := out[idx+len("VERIF-REPLAY "):]
	if nl := strings.IndexByte(line, '\n'); nl >= 0 {
		line = line[:nl]
	}
	var obs map[string]json.RawMessage
	if err := json.Unmarshal([]byte(line), &obs); err != nil {
		return "", extra
	}
	// pin inputs and observed outputs
	var pins []*Term
	for _, c := range cins {
		pins = append(pins, c.pin()...)
	}
	for i := 0; i < sig.Results().Len(); i++ {
		w := vc.witnessOf(fmt.Sprintf("r%d", i), fr.Results[i], sig.Results().At(i).Type(), fr.Final)
		if w == nil {
			continue
		}
		c := decodeObserved(w, obs[fmt.Sprintf("r%d", i)])
		if c != nil {
			pins = append(pins, c.pin()...)
		}
	}
	if sig.Recv() != nil {
		if pt, ok := under(fn.Params[0].Type()).(*types.Pointer); ok && scalarSort(pt.Elem()) != nil {
			pv := asPtr(fr.Params[0], pt.Elem())
			w := vc.witnessOf("recv", fr.Final.load(pv), pt.Elem(), fr.Final)
			if w != nil {
				if c := decodeObserved(w, obs["recv"]); c != nil {
					pins = append(pins, c.pin()...)
				}
			}
		}
	}
	sc := Script(append(append([]*Term{}, asserts...), pins...), nil, "", 0)
	r := runSolvers(sc, filepath.Join(dir, fileSafe(o.Name)+"_confirm.smt2"), timeoutS, false, 0)
	extra["confirm_query"] = r.Status
	if r.Status == "sat" {
		return "reproduced", extra
	}
	extra["replay_note"] = "the real function's result on the model input does not violate the clause (model is an artefact of an abstraction)"
	return "", extra
}

func decodeObserved(w *witness, raw json.RawMessage) *concrete {
	if raw == nil {
		return nil
	}
	c := &concrete{w: w}
	switch w.Kind {
	case "bool":
		var b bool
		if json.Unmarshal(raw, &b) != nil {
			return nil
		}
		if b {
			c.vals = []*big.Int{big.NewInt(1)}
		} else {
			c.vals = []*big.Int{big.NewInt(0)}
		}
	case "int", "uint":
		var s string
		if json.Unmarshal(raw, &s) != nil {
			return nil
		}
		v, ok := new(big.Int).SetString(s, 10)
		if !ok {
			return nil
		}
		c.vals = []*big.Int{v}
	case "error":
		var b bool
		if json.Unmarshal(raw, &b) != nil {
			return nil
		}
		if b {
			c.vals = []*big.Int{big.NewInt(1)}
		} else {
			c.vals = []*big.Int{big.NewInt(0)}
		}
	case "string", "scalarslice":
		var xs []string
		if json.Unmarshal(raw, &xs) != nil {
			return nil
		}
		c.n = int64(len(xs))
		for i, s := range xs {
			if i >= replayElems {
				break
			}
			v, _ := new(big.Int).SetString(s, 10)
			c.vals = append(c.vals, v)
		}
	case "structslice":
		var xs [][]string
		if json.Unmarshal(raw, &xs) != nil {
			return nil
		}
		c.n = int64(len(xs))
		c.f = make([][]*big.Int, len(w.Fields))
		for i, row := range xs {
			if i >= replayElems {
				break
			}
			for f := range w.Fields {
				v, _ := new(big.Int).SetString(row[f], 10)
				c.f[f] = append(c.f[f], v)
			}
		}
	default:
		return nil
	}
	return c
}

func lastLines(s string, n int) string {
	ls := strings.Split(strings.TrimSpace(s), "\n")
	if len(ls) > n {
		ls = ls[len(ls)-n:]
	}
	return strings.Join(ls, "\n")
}

// genReplayTest writes a test that calls fn on the concrete inputs and prints the results.
func genReplayTest(fn *ssa.Function, ins []*concrete) (string, string, map[string]any) {
	var sb strings.Builder
	pkg := fn.Pkg.Pkg
	noq := func(p *types.Package) string {
		if p == pkg {
			return ""
		}
		return p.Name()
	}
	desc := map[string]any{}
	fmt.Fprintf(&sb, "package %s\n\nimport (\n\t\"encoding/json\"\n\t\"fmt\"\n\t\"testing\"\n)\n\n", pkg.Name())
	sb.WriteString("func TestVerifReplay(t *testing.T) {\n")
	var argNames []string
	sig := fn.Signature
	for i, c := range ins {
		w := c.w
		name := fmt.Sprintf("a%d", i)
		ts := types.TypeString(w.T, noq)
		switch w.Kind {
		case "bool", "int", "uint":
			lit := c.vals[0].String()
			if w.Kind == "bool" {
				lit = "false"
				if c.vals[0].Sign() != 0 {
					lit = "true"
				}
				fmt.Fprintf(&sb, "\tvar %s %s = %s\n", name, ts, lit)
			} else {
				fmt.Fprintf(&sb, "\tvar %s %s = %s\n", name, ts, lit)
			}
			desc[w.Name] = lit
		case "string":
			var bs []string
			for j := int64(0); j < c.n; j++ {
				bs = append(bs, c.vals[j].String())
			}
			fmt.Fprintf(&sb, "\tvar %s %s = %s(string([]byte{%s}))\n", name, ts, ts, strings.Join(bs, ", "))
			bb := make([]byte, 0)
			for j := int64(0); j < c.n; j++ {
				bb = append(bb, byte(c.vals[j].Int64()))
			}
			desc[w.Name] = fmt.Sprintf("%q", string(bb))
		case "scalarslice":
			var bs []string
			for j := int64(0); j < c.n; j++ {
				bs = append(bs, c.vals[j].String())
			}
			fmt.Fprintf(&sb, "\tvar %s %s = %s{%s}\n", name, ts, ts, strings.Join(bs, ", "))
			desc[w.Name] = "[" + strings.Join(bs, " ") + "]"
		case "structslice":
			var rows []string
			for j := int64(0); j < c.n; j++ {
				var fs []string
				for f, fname := range w.Fields {
					v := c.f[f][j]
					lit := v.String()
					if isBool(w.FTypes[f]) {
						lit = "false"
						if v.Sign() != 0 {
							lit = "true"
						}
					}
					fs = append(fs, fname+": "+lit)
				}
				rows = append(rows, "{"+strings.Join(fs, ", ")+"}")
			}
			fmt.Fprintf(&sb, "\tvar %s %s = %s{%s}\n", name, ts, ts, strings.Join(rows, ", "))
			desc[w.Name] = strings.Join(rows, " ")
		default:
			return "", "", nil
		}
		argNames = append(argNames, name)
	}
	// call
	nres := sig.Results().Len()
	var rn []string
	for i := 0; i < nres; i++ {
		rn = append(rn, fmt.Sprintf("r%d", i))
	}
	call := ""
	if sig.Recv() != nil {
		recv := argNames[0]
		if _, ok := under(fn.Params[0].Type()).(*types.Pointer); ok {
			recv = "(&" + recv + ")"
		}
		call = recv + "." + fn.Name() + "(" + strings.Join(argNames[1:], ", ") + ")"
	} else {
		call = fn.Name() + "(" + strings.Join(argNames, ", ") + ")"
	}
	if nres > 0 {
		fmt.Fprintf(&sb, "\t%s := %s\n", strings.Join(rn, ", "), call)
	} else {
		fmt.Fprintf(&sb, "\t%s\n", call)
	}
	sb.WriteString("\tout := map[string]any{}\n")
	enc := func(name string, t types.Type, key string) bool {
		switch u := under(t).(type) {
		case *types.Basic:
			switch {
			case isBool(t):
				fmt.Fprintf(&sb, "\tout[%q] = bool(%s)\n", key, name)
			case isString(t):
				fmt.Fprintf(&sb, "\t{ var xs = []string{}; for _, b := range []byte(string(%s)) { xs = append(xs, fmt.Sprint(b)) }; out[%q] = xs }\n", name, key)
			case u.Info()&types.IsInteger != 0:
				fmt.Fprintf(&sb, "\tout[%q] = fmt.Sprint(%s)\n", key, intPrint(name, t))
			default:
				return false
			}
		case *types.Interface:
			fmt.Fprintf(&sb, "\tout[%q] = %s != nil\n", key, name)
		case *types.Slice:
			if _, ok := under(u.Elem()).(*types.Basic); ok {
				fmt.Fprintf(&sb, "\t{ var xs = []string{}; for _, b := range %s { xs = append(xs, fmt.Sprint(%s)) }; out[%q] = xs }\n", name, intPrint("b", u.Elem()), key)
			} else if stt, ok := under(u.Elem()).(*types.Struct); ok {
				var fs []string
				for f := 0; f < stt.NumFields(); f++ {
					fs = append(fs, "fmt.Sprint("+intPrint("e."+stt.Field(f).Name(), stt.Field(f).Type())+")")
				}
				fmt.Fprintf(&sb, "\t{ var xs = [][]string{}; for _, e := range %s { xs = append(xs, []string{%s}) }; out[%q] = xs }\n", name, strings.Join(fs, ", "), key)
			} else {
				return false
			}
		default:
			return false
		}
		return true
	}
	for i := 0; i < nres; i++ {
		enc(rn[i], sig.Results().At(i).Type(), rn[i])
	}
	if sig.Recv() != nil {
		if pt, ok := under(fn.Params[0].Type()).(*types.Pointer); ok {
			enc(argNames[0], pt.Elem(), "recv")
		}
	}
	sb.WriteString("\tjs, _ := json.Marshal(out)\n\tfmt.Println(\"VERIF-REPLAY \" + string(js))\n}\n")
	return sb.String(), "TestVerifReplay", desc
}

func intPrint(name string, t types.Type) string {
	if isBool(t) {
		return "map[bool]int{false: 0, true: 1}[bool(" + name + ")]"
	}
	if _, ok := isUnsigned(t); ok {
		return "uint64(" + name + ")"
	}
	return "int64(" + name + ")"
}

// runGoTest injects src as an in-package test with -overlay and runs it.
func runGoTest(pkgDir, src, name, tags string) (string, bool) {
	dir, err := os.MkdirTemp(filepath.Join(verifRoot, "work"), "ov")
	if err != nil {
		return err.Error(), false
	}
	defer os.RemoveAll(dir)
	tf := filepath.Join(dir, "zz_verif_replay_test.go")
	os.WriteFile(tf, []byte(src), 0o644)
	target := filepath.Join(repoRoot, pkgDir, "zz_verif_replay_test.go")
	ov, _ := json.Marshal(map[string]any{"Replace": map[string]string{target: tf}})
	ovf := filepath.Join(dir, "overlay.json")
	os.WriteFile(ovf, ov, 0o644)
	args := []string{"test", "-overlay", ovf, "-vet=off", "-count=1", "-timeout", "60s", "-run", "^" + name + "$", "-v"}
	if tags != "" {
		args = append(args, "-tags", tags)
	}
	if strings.Contains(src, "// verif:race") {
		// a harness that demonstrates a data race runs under the race detector
		args = append(args, "-race")
	}
	args = append(args, "./"+pkgDir)
	cmd := exec.Command("go", args...)
	cmd.Dir = repoRoot
	cmd.Env = append(os.Environ(), "GOFLAGS=-mod=mod", "GOPROXY=off", "GOSUMDB=off", "GOTOOLCHAIN=local")
	var out bytes.Buffer
	cmd.Stdout = &out
	cmd.Stderr = &out
	err = cmd.Run()
	return out.String(), err != nil
}
