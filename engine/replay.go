package main

import (
	"encoding/json"
	"fmt"
	"os"
	"path/filepath"
	"strings"
)

// replayObligation records a failed obligation and, where a model is available, tries to
// reproduce the violation on the real code. Returns "reproduced" or "no-failing-input-found".
func replayObligation(prog *Prog, fr *FuncResult, o *Obligation, prop, path string, timeoutS int) string {
	rec := map[string]any{
		"property":      prop,
		"obligation":    o.Name,
		"kind":          o.Kind,
		"clause":        o.Src,
		"function":      o.Fn,
		"status":        o.Status,
		"backend":       o.Backend,
		"solver_output": o.Output,
		"verdict":       "no-failing-input-found",
	}
	verdict := "no-failing-input-found"
	if o.Status == "failed" {
		var v string
		var extra map[string]any
		if fr.Lemma != nil {
			v, extra = tryReplayLemma(prog, fr, o, timeoutS)
		} else if tv, te, ok := tryObligationTemplate(fr, o); ok {
			v, extra = tv, te
		} else if tv, te, ok := tryTemplateReplay(fr); ok {
			v, extra = tv, te
		} else {
			v, extra = tryReplay(prog, fr, o, timeoutS)
		}
		if v != "" {
			verdict = v
		}
		for k, x := range extra {
			rec[k] = x
		}
	}
	if o.Status != "failed" && fr.Lemma == nil {
		// no model, but a scenario harness written for this obligation needs none
		if tv, te, ok := tryObligationTemplate(fr, o); ok {
			if tv != "" {
				verdict = tv
			}
			for k, x := range te {
				rec[k] = x
			}
		}
	}
	rec["verdict"] = verdict
	writeJSON(path, rec)
	return verdict
}

// tryTemplateReplay runs a fault-enumeration harness for functions whose inputs are database transactions
// (C18): the real function is executed against a stub SQL driver failing every statement position in turn.
func tryTemplateReplay(fr *FuncResult) (string, map[string]any, bool) {
	if fr.VC == nil || fr.VC.fn == nil || fr.VC.fn.Pkg == nil {
		return "", nil, false
	}
	path := fr.VC.fn.Pkg.Pkg.Path()
	if !strings.HasSuffix(path, "/server/db/mysql") {
		return "", nil, false
	}
	data, err := os.ReadFile(filepath.Join(verifRoot, "replay_templates", "c18_sqlx_test.go.tmpl"))
	if err != nil {
		return "", nil, false
	}
	pkgDir := strings.TrimPrefix(path, repoModule+"/")
	extra := map[string]any{"package_dir": pkgDir, "test_name": "TestVerifReplay", "build_tags": "verif,mysql"}
	var outs []string
	for _, b := range []string{"false", "true"} {
		src := strings.NewReplacer("PKGNAME", fr.VC.fn.Pkg.Pkg.Name(), "FUNCNAME", fr.VC.fn.Name(), "DUMMYBOOL", b).Replace(string(data))
		out, _ := runGoTest(pkgDir, src, "TestVerifReplay", "verif,mysql")
		outs = append(outs, lastLines(out, 30))
		extra["go_test"] = src
		if strings.Contains(out, "VERIF-REPLAY violation") {
			extra["real_output"] = lastLines(out, 40)
			extra["inputs"] = "stub SQL driver failing each statement position in turn; bool arguments = " + b
			return "reproduced", extra, true
		}
	}
	extra["real_output"] = strings.Join(outs, "\n")
	extra["replay_note"] = "the fault-enumeration harness (every statement position failing in turn, dummy arguments) found no violation on the real code"
	return "", extra, true
}

// tryObligationTemplate: a harness written for one named obligation (used where the counterexample is a scenario -
// fake store objects, sessions, a request - rather than plain argument values).
func tryObligationTemplate(fr *FuncResult, o *Obligation) (string, map[string]any, bool) {
	if fr.VC == nil || fr.VC.fn == nil || fr.VC.fn.Pkg == nil {
		return "", nil, false
	}
	name := strings.ReplaceAll(o.Name, "#", "_")
	name = strings.ReplaceAll(name, ":", "_")
	data, err := os.ReadFile(filepath.Join(verifRoot, "replay_templates", name+".go.tmpl"))
	if err != nil {
		return "", nil, false
	}
	pkgDir := strings.TrimPrefix(fr.VC.fn.Pkg.Pkg.Path(), repoModule+"/")
	out, _ := runGoTest(pkgDir, string(data), "TestVerifReplay", "verif")
	extra := map[string]any{"package_dir": pkgDir, "test_name": "TestVerifReplay", "build_tags": "verif", "go_test": string(data), "real_output": lastLines(out, 12)}
	if strings.Contains(out, "VERIF-REPLAY violation") || (strings.Contains(string(data), "// verif:race") && strings.Contains(out, "WARNING: DATA RACE")) {
		return "reproduced", extra, true
	}
	extra["replay_note"] = "the scenario harness for this obligation does not violate it on the real code"
	return "", extra, true
}

func cmdReplay(args []string) int {
	if len(args) < 1 {
		fmt.Fprintln(os.Stderr, "usage: vcgen replay <file>")
		return 2
	}
	data, err := os.ReadFile(args[0])
	if err != nil {
		fmt.Fprintln(os.Stderr, err)
		return 2
	}
	var rec map[string]any
	if err := json.Unmarshal(data, &rec); err != nil {
		fmt.Fprintln(os.Stderr, err)
		return 2
	}
	fmt.Printf("obligation: %v\nclause: %v\nverdict: %v\n", rec["obligation"], rec["clause"], rec["verdict"])
	if gt, ok := rec["go_test"].(string); ok && gt != "" {
		out, failed := runGoTest(fmt.Sprint(rec["package_dir"]), gt, fmt.Sprint(rec["test_name"]), fmt.Sprint(rec["build_tags"]))
		fmt.Println(out)
		if failed {
			fmt.Printf("VIOLATION property=%v replay=%s\n", rec["property"], args[0])
			return 1
		}
		return 0
	}
	fmt.Println("solver output:", rec["solver_output"])
	return 1
}


// runBounded executes the Go expression of a bounded check for every combination of its variables.
func runBounded(bc *BoundedCheck) (bool, int64, string) {
	pkgPath := pkgDirToPath(bc.Pkg)
	pkgDir := strings.TrimPrefix(pkgPath, repoModule+"/")
	parts := strings.Split(pkgDir, "/")
	pkgName := parts[len(parts)-1]
	if pkgDir == "server" {
		pkgName = "main"
	}
	var sb strings.Builder
	fmt.Fprintf(&sb, "package %s\n\nimport (\n\t\"fmt\"\n\t\"testing\"\n)\n\nfunc TestVerifBounded(t *testing.T) {\n\tevals_ := 0\n", pkgName)
	for _, v := range bc.Vars {
		fmt.Fprintf(&sb, "\tfor _%s := int64(%d); _%s <= %d; _%s++ {\n\t%s := %s(_%s)\n", v.Name, v.Lo, v.Name, v.Hi, v.Name, v.Name, v.Type, v.Name)
	}
	sb.WriteString("\tevals_++\n\tif !(" + bc.GoExpr + ") {\n\t\tfmt.Println(\"VERIF-BOUNDED counterexample:\"")
	for _, v := range bc.Vars {
		fmt.Fprintf(&sb, ", \"%s=\", %s", v.Name, v.Name)
	}
	sb.WriteString(")\n\t\tt.FailNow()\n\t}\n")
	for range bc.Vars {
		sb.WriteString("\t}\n")
	}
	sb.WriteString("\tfmt.Println(\"VERIF-BOUNDED evaluations=\", evals_)\n}\n")
	out, failed := runGoTest(pkgDir, sb.String(), "TestVerifBounded", "verif")
	var evals int64
	if i := strings.Index(out, "VERIF-BOUNDED evaluations= "); i >= 0 {
		fmt.Sscanf(out[i+len("VERIF-BOUNDED evaluations= "):], "%d", &evals)
	}
	return !failed && evals > 0, evals, out
}
