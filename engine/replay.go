package main

import (
	"encoding/json"
	"fmt"
	"os"
)

// replayObligation records a failed obligation and, where a model is available, tries to
// reproduce the violation on the real code. Returns "reproduced" or "no-failing-input-found".
func replayObligation(prog *Prog, fr *FuncResult, o *Obligation, prop, path string, timeoutS int) string {
	rec := map[string]any{
		"property":      prop,
		"obligation":    o.Name,
		"kind":          o.Kind,
		"clause":        o.Src,
		"function":      o.Fn,
		"status":        o.Status,
		"backend":       o.Backend,
		"solver_output": o.Output,
		"verdict":       "no-failing-input-found",
	}
	verdict := "no-failing-input-found"
	if o.Status == "failed" {
		var v string
		var extra map[string]any
		if fr.Lemma != nil {
			v, extra = tryReplayLemma(prog, fr, o, timeoutS)
		} else {
			v, extra = tryReplay(prog, fr, o, timeoutS)
		}
		if v != "" {
			verdict = v
		}
		for k, x := range extra {
			rec[k] = x
		}
	}
	rec["verdict"] = verdict
	writeJSON(path, rec)
	return verdict
}

func cmdReplay(args []string) int {
	if len(args) < 1 {
		fmt.Fprintln(os.Stderr, "usage: vcgen replay <file>")
		return 2
	}
	data, err := os.ReadFile(args[0])
	if err != nil {
		fmt.Fprintln(os.Stderr, err)
		return 2
	}
	var rec map[string]any
	if err := json.Unmarshal(data, &rec); err != nil {
		fmt.Fprintln(os.Stderr, err)
		return 2
	}
	fmt.Printf("obligation: %v\nclause: %v\nverdict: %v\n", rec["obligation"], rec["clause"], rec["verdict"])
	if gt, ok := rec["go_test"].(string); ok && gt != "" {
		out, failed := runGoTest(fmt.Sprint(rec["package_dir"]), gt, fmt.Sprint(rec["test_name"]), fmt.Sprint(rec["build_tags"]))
		fmt.Println(out)
		if failed {
			fmt.Printf("VIOLATION property=%v replay=%s\n", rec["property"], args[0])
			return 1
		}
		return 0
	}
	fmt.Println("solver output:", rec["solver_output"])
	return 1
}
