package main

import (
	"regexp"
	"strconv"
	"fmt"
	"go/token"
	"go/types"
	"os"
	"sort"
	"strings"

	"golang.org/x/tools/go/packages"
	"golang.org/x/tools/go/ssa"
	"golang.org/x/tools/go/ssa/ssautil"
)

const repoModule = "github.com/tinode/chat"

type Prog struct {
	Fset     *token.FileSet
	Pkgs     []*packages.Package
	SSA      *ssa.Program
	ByPath   map[string]*ssa.Package
	TypesPkg map[string]*types.Package
	CS       *ContractSet
	cindex   map[string]*FuncContract // "pkgpath#Recv.Name"
	Root     string
	loadErrs []string
	loadedFiles map[string]bool
	wsets    map[*ssa.Function]*wset
	pureFields map[string]bool // heap keys of function-valued fields declared pure
	guarded    map[string]string // heap key of a field -> heap key of the mutex field (same object) that protects it
	models   map[string][]*FuncContract
}

func pkgDirToPath(dir string) string {
	d := strings.TrimPrefix(dir, "./")
	if d == "" || d == "." {
		return repoModule
	}
	return repoModule + "/" + d
}

func LoadProg(root string, patterns []string, tags string, cs *ContractSet) (*Prog, error) {
	cfg := &packages.Config{
		Mode:       packages.LoadSyntax | packages.NeedDeps | packages.NeedImports | packages.NeedTypes | packages.NeedTypesInfo | packages.NeedSyntax,
		Dir:        root,
		BuildFlags: []string{"-tags=" + tags},
		Env:        append(os.Environ(), "GOFLAGS=-mod=mod", "GOPROXY=off", "GOSUMDB=off", "GOTOOLCHAIN=local"),
	}
	pkgs, err := packages.Load(cfg, patterns...)
	if err != nil {
		return nil, err
	}
	p := &Prog{Pkgs: pkgs, ByPath: map[string]*ssa.Package{}, TypesPkg: map[string]*types.Package{}, CS: cs, Root: root, cindex: map[string]*FuncContract{}}
	loadedFiles := map[string]bool{}
	packages.Visit(pkgs, nil, func(pk *packages.Package) {
		for _, e := range pk.Errors {
			p.loadErrs = append(p.loadErrs, e.Error())
		}
		if pk.Types != nil {
			p.TypesPkg[pk.PkgPath] = pk.Types
		}
		for _, f := range pk.CompiledGoFiles {
			loadedFiles[f] = true
		}
		for _, f := range pk.GoFiles {
			loadedFiles[f] = true
		}
	})
	p.loadedFiles = loadedFiles
	if len(p.loadErrs) > 0 {
		return nil, fmt.Errorf("package load errors: %s", strings.Join(p.loadErrs, "; "))
	}
	prog, spkgs := ssautil.Packages(pkgs, ssa.NaiveForm|ssa.InstantiateGenerics)
	p.SSA = prog
	if len(pkgs) > 0 {
		p.Fset = pkgs[0].Fset
	}
	for i, sp := range spkgs {
		if sp == nil {
			return nil, fmt.Errorf("no SSA for %s", pkgs[i].PkgPath)
		}
		sp.Build()
		p.ByPath[pkgs[i].PkgPath] = sp
	}
	p.pureFields = map[string]bool{}
	for _, fd := range cs.Fields {
		if fd.Kind == "purefunc" {
			path := pkgDirToPath(fd.Pkg)
			short := path
			if tp := p.TypesPkg[path]; tp != nil {
				short = pkgShort(tp)
			}
			for _, f := range fd.Fields {
				p.pureFields[short+"."+f] = true
			}
		}
	}
	p.guarded = map[string]string{}
	for _, fd := range cs.Fields {
		if fd.Kind == "guarded" && fd.By != "" {
			path := pkgDirToPath(fd.Pkg)
			short := path
			if tp := p.TypesPkg[path]; tp != nil {
				short = pkgShort(tp)
			}
			for _, f := range fd.Fields {
				by := fd.By
				if !strings.Contains(by, ".") {
					// the mutex is a field of the same struct type
					if i := strings.LastIndex(f, "."); i >= 0 {
						by = f[:i] + "." + by
					}
				}
				p.guarded[short+"."+f] = short + "." + by
			}
		}
	}
	p.models = map[string][]*FuncContract{}
	for _, fc := range cs.Funcs {
		path := fc.Pkg
		if strings.HasPrefix(path, "./") || path == "." {
			path = pkgDirToPath(path)
		}
		if fc.Models != "" {
			p.models[fc.Models] = append(p.models[fc.Models], fc)
			continue
		}
		p.cindex[path+"#"+fc.Key()] = fc
	}
	return p, nil
}

// FindFunc resolves a contract to the SSA function it annotates (nil if there is none,
// e.g. interface methods and externals).
// closureName: a contract named Parent__N annotates the N-th function literal of Parent (SSA name Parent$N).
var closureNameRe = regexp.MustCompile(`^(.+)__([0-9]+)$`)

func (p *Prog) FindFunc(fc *FuncContract) *ssa.Function {
	if m := closureNameRe.FindStringSubmatch(fc.Name); m != nil {
		pc := *fc
		pc.Name = m[1]
		if parent := p.FindFunc(&pc); parent != nil {
			n, _ := strconv.Atoi(m[2])
			if n >= 1 && n <= len(parent.AnonFuncs) {
				return parent.AnonFuncs[n-1]
			}
		}
		return nil
	}
	path := fc.Pkg
	if strings.HasPrefix(path, "./") || path == "." {
		path = pkgDirToPath(path)
	}
	sp := p.ByPath[path]
	if sp == nil {
		return nil
	}
	if fc.Recv == "" {
		if f, ok := sp.Members[fc.Name].(*ssa.Function); ok {
			return f
		}
		return nil
	}
	tm, ok := sp.Members[fc.Recv].(*ssa.Type)
	if !ok {
		return nil
	}
	T := tm.Type()
	for _, t := range []types.Type{T, types.NewPointer(T)} {
		ms := p.SSA.MethodSets.MethodSet(t)
		for i := 0; i < ms.Len(); i++ {
			sel := ms.At(i)
			if sel.Obj().Name() == fc.Name {
				f := p.SSA.MethodValue(sel)
				if f != nil && f.Synthetic == "" {
					return f
				}
				if f != nil && len(f.Blocks) > 0 {
					// wrapper (promoted or pointer-receiver wrapper): find the declared method
					if fn, ok := sel.Obj().(*types.Func); ok {
						if df := p.SSA.FuncValue(fn); df != nil {
							return df
						}
					}
				}
			}
		}
	}
	return nil
}

func recvTypeName(sig *types.Signature) (string, *types.Package) {
	if sig.Recv() == nil {
		return "", nil
	}
	t := sig.Recv().Type()
	if pt, ok := t.(*types.Pointer); ok {
		t = pt.Elem()
	}
	if nt, ok := types.Unalias(t).(*types.Named); ok {
		return nt.Obj().Name(), nt.Obj().Pkg()
	}
	return "", nil
}

// ContractForFunc looks up the contract of a concrete function.
func (p *Prog) ContractForFunc(fn *ssa.Function) *FuncContract {
	if fn == nil {
		return nil
	}
	if fn.Synthetic != "" && fn.Object() != nil {
		// wrappers and bound-method thunks resolve to the declared method
	}
	obj := fn.Object()
	if obj == nil {
		return nil
	}
	tf, ok := obj.(*types.Func)
	if !ok || tf.Pkg() == nil {
		return nil
	}
	sig := tf.Type().(*types.Signature)
	rn, _ := recvTypeName(sig)
	key := tf.Pkg().Path() + "#"
	if rn != "" {
		key += rn + "."
	}
	key += tf.Name()
	return p.cindex[key]
}

// ContractForMethod looks up the contract of an interface method.
func (p *Prog) ContractForMethod(m *types.Func) *FuncContract {
	if m.Pkg() == nil {
		// error.Error etc.
		return p.cindex["#"+m.Name()]
	}
	sig := m.Type().(*types.Signature)
	rn, _ := recvTypeName(sig)
	if rn == "" {
		// method of an unnamed interface type
		return nil
	}
	return p.cindex[m.Pkg().Path()+"#"+rn+"."+m.Name()]
}

func (p *Prog) typesPkgOf(fc *FuncContract) *types.Package {
	path := fc.Pkg
	if strings.HasPrefix(path, "./") || path == "." {
		path = pkgDirToPath(path)
	}
	return p.TypesPkg[path]
}

func sortedKeys[T any](m map[string]T) []string {
	var out []string
	for k := range m {
		out = append(out, k)
	}
	sort.Strings(out)
	return out
}

// staleHeaders lists contract headers that name no function or method in a loaded package: such a contract would be
// silently ignored at every call site (an interface-method or external contract has no body whose verification would
// notice). Packages that are not loaded for this property are skipped - nothing there can be called.
func (p *Prog) staleHeaders() []string {
	var out []string
	for key, fc := range p.cindex {
		i := strings.Index(key, "#")
		path := key[:i]
		if path == "" {
			continue // universe methods (error.Error)
		}
		tp := p.TypesPkg[path]
		if tp == nil {
			continue
		}
		if !fc.External && strings.HasSuffix(fc.File, ".go") && !p.loadedFiles[fc.File] {
			continue // the contract file's build constraint is not satisfied in this load (adapter packages)
		}
		if closureNameRe.MatchString(fc.Name) {
			if p.FindFunc(fc) == nil {
				out = append(out, key)
			}
			continue
		}
		if fc.Recv == "" {
			if _, ok := tp.Scope().Lookup(fc.Name).(*types.Func); !ok {
				out = append(out, key)
			}
			continue
		}
		tn, ok := tp.Scope().Lookup(fc.Recv).(*types.TypeName)
		if !ok {
			out = append(out, key)
			continue
		}
		obj, _, _ := types.LookupFieldOrMethod(tn.Type(), true, tp, fc.Name)
		if _, ok := obj.(*types.Func); !ok {
			out = append(out, key)
		}
	}
	sort.Strings(out)
	return out
}
