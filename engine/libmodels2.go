package main

// Library models used by the authentication code (C12): bytes.Buffer over its real fields, encoding/binary
// Read/Write/Size for structs of fixed-size unsigned fields (little endian), crypto/hmac as an uninterpreted function
// of key and message, constant-time / plain byte comparison, and time.Time as nanoseconds.
//
// All of these are trusted descriptions of the standard library (listed in the evidence).

import (
	"go/types"
	"math/big"

	"golang.org/x/tools/go/ssa"
)

// macState is the engine-side record of a keyed hash under construction (hmac.New ... Write ... Sum).
type macState struct {
	alg   string
	size  int
	key   *SliceV
	bytes []*Term // message bytes written so far (nil once unknown)
	known bool
	pc    *Term
}

// fixedLayout returns the byte widths of the fields of a struct made only of fixed-size unsigned integers.
func fixedLayout(t types.Type) ([]int, int, bool) {
	st, ok := under(t).(*types.Struct)
	if !ok {
		return nil, 0, false
	}
	var ws []int
	tot := 0
	for i := 0; i < st.NumFields(); i++ {
		w, ok := isUnsigned(st.Field(i).Type())
		if !ok || w%8 != 0 {
			return nil, 0, false
		}
		ws = append(ws, w/8)
		tot += w / 8
	}
	return ws, tot, true
}

// ifacePointee: for an interface value holding a pointer to a struct, the pointer and the struct type.
func (vc *VC) ifacePointee(v Val) (*PtrV, types.Type, bool) {
	iv, ok := v.(*IfaceV)
	if !ok {
		return nil, nil, false
	}
	bt, ok := vc.boxedType[iv.Data]
	if !ok {
		return nil, nil, false
	}
	pt, ok := under(bt).(*types.Pointer)
	if !ok {
		return nil, nil, false
	}
	return &PtrV{Kind: PHeap, Base: iv.Data, Key: typeKey(pt.Elem()), Elem: pt.Elem()}, pt.Elem(), true
}

func (vc *VC) bufferParts(st *State, b Val) (p *PtrV, buf *SliceV, off *Term, ok bool) {
	switch x := b.(type) {
	case *PtrV:
		p = x
	case *Term:
		p = &PtrV{Kind: PHeap, Base: x, Key: "bytes.Buffer"}
	case *IfaceV:
		bt, has := vc.boxedType[x.Data]
		if !has {
			return nil, nil, nil, false
		}
		pt, isP := under(bt).(*types.Pointer)
		if !isP || typeKey(pt.Elem()) != "bytes.Buffer" {
			return nil, nil, nil, false
		}
		p = &PtrV{Kind: PHeap, Base: x.Data, Key: "bytes.Buffer"}
	default:
		return nil, nil, nil, false
	}
	if p.Kind != PHeap || p.Key != "bytes.Buffer" || len(p.Alts) > 0 {
		return nil, nil, nil, false
	}
	bs := types.NewSlice(types.Typ[types.Uint8])
	bv, isS := st.loadKey(PHeap, "bytes.Buffer.buf", p.Base, nil, bs, nil).(*SliceV)
	if !isS {
		return nil, nil, nil, false
	}
	o, isT := st.loadKey(PHeap, "bytes.Buffer.off", p.Base, nil, types.Typ[types.Int], nil).(*Term)
	if !isT {
		return nil, nil, nil, false
	}
	return p, bv, o, true
}

// appendBytes models buf = append(buf, bs...) for a bytes.Buffer: a new backing array holding the unread
// content followed by bs. With a constant current length the array is a chain of stores over a zero array, so that two
// buffers built from equal bytes are equal arrays.
func (vc *VC) bufferAppend(st *State, p *PtrV, buf *SliceV, off *Term, bs []*Term) {
	ki, h := vc.byteContent(st)
	ref := vc.freshRef()
	var content *Term
	var n *Term
	old := Select(h, buf.Arr)
	if buf.Len.IsConst && buf.Len.Int.IsInt64() && buf.Len.Int.Int64() <= 256 {
		content = ConstArray(old.Sort, BVC(0, 8))
		k := buf.Len.Int.Int64()
		for i := int64(0); i < k; i++ {
			content = Store(content, IntC(i), Select(old, Add(buf.Off, IntC(i))))
		}
		for i, b := range bs {
			content = Store(content, IntC(k+int64(i)), b)
		}
		n = IntC(k + int64(len(bs)))
	} else {
		content = Fresh("bufappend", old.Sort)
		i := Bound("i", IntSort)
		vc.assume(st, Forall([]*Term{i}, Implies(And(Le(IntC(0), i), Lt(i, buf.Len)), Eq(Select(content, i), Select(old, Add(buf.Off, i))))))
		for k, b := range bs {
			vc.assume(st, Eq(Select(content, Add(buf.Len, IntC(int64(k)))), b))
		}
		n = Add(buf.Len, IntC(int64(len(bs))))
	}
	st.heap[ki.Name] = Store(st.heapVar(ki), ref, content)
	bst := types.NewSlice(types.Typ[types.Uint8])
	st.storeKey(PHeap, "bytes.Buffer.buf", p.Base, nil, bst, &SliceV{ref, IntC(0), n, n})
	_ = off
}

func leBytes(v *Term, nbytes int) []*Term {
	var out []*Term
	for k := 0; k < nbytes; k++ {
		out = append(out, BVExtract(v, 8*k+7, 8*k))
	}
	return out
}

func leValue(at func(i int) *Term, nbytes int) *Term {
	var v *Term
	for k := nbytes - 1; k >= 0; k-- {
		if v == nil {
			v = at(k)
		} else {
			v = BVConcat(v, at(k))
		}
	}
	return v
}

// timeVal builds a time.Time with the given nanoseconds (abstraction: wall == 0, loc == nil, ext == nanoseconds
// counted from the zero Time).
func timeVal(t types.Type, ns *Term) Val {
	st := under(t).(*types.Struct)
	sv := &StructV{T: st}
	for i := 0; i < st.NumFields(); i++ {
		f := st.Field(i)
		switch f.Name() {
		case "ext":
			sv.F = append(sv.F, ns)
		default:
			sv.F = append(sv.F, zeroVal(f.Type()))
		}
	}
	return sv
}

func timeNanos(v Val) (*Term, bool) {
	sv, ok := v.(*StructV)
	if !ok {
		return nil, false
	}
	for i := 0; i < sv.T.NumFields(); i++ {
		if sv.T.Field(i).Name() == "ext" {
			t, ok := sv.F[i].(*Term)
			return t, ok
		}
	}
	return nil, false
}

// The count is taken from the Unix epoch, so that every time the server can observe fits the 64-bit field it is kept
// in (an offset from year 1 would not); the zero Time and the epoch itself therefore coincide in the model, and the
// clock is assumed to be past the epoch.
var unixEpochNanos = big.NewInt(0)

func bytesEqualModel(vc *VC, st *State, a, b *SliceV) *Term {
	_, h := vc.byteContent(st)
	ca, cb := Select(h, a.Arr), Select(h, b.Arr)
	for _, s := range []*SliceV{a, b} {
		if s.Len.IsConst && s.Len.Int.IsInt64() && s.Len.Int.Int64() <= 64 {
			n := s.Len.Int.Int64()
			conj := []*Term{Eq(a.Len, b.Len)}
			for i := int64(0); i < n; i++ {
				conj = append(conj, Eq(Select(ca, Add(a.Off, IntC(i))), Select(cb, Add(b.Off, IntC(i)))))
			}
			return And(conj...)
		}
	}
	i := Bound("i", IntSort)
	return And(Eq(a.Len, b.Len), Forall([]*Term{i}, Implies(And(Le(IntC(0), i), Lt(i, a.Len)), Eq(Select(ca, Add(a.Off, i)), Select(cb, Add(b.Off, i))))))
}

// macResult: the digest as an array, a function of the algorithm, the key slice and the message bytes.
func macResult(vc *VC, st *State, alg string, key *SliceV, msg []*Term) *Term {
	_, h := vc.byteContent(st)
	arrSort := Select(h, key.Arr).Sort
	m := ConstArray(arrSort, BVC(0, 8))
	for i, b := range msg {
		m = Store(m, IntC(int64(i)), b)
	}
	return App("hmac:"+alg, arrSort, Select(h, key.Arr), key.Off, key.Len, m, IntC(int64(len(msg))))
}

// tick advances the ghost clock: a reading of the wall clock not earlier than the previous one.
func (vc *VC) tick(st *State) *Term {
	ki := vc.reg.get("ghost:clock", 0, IntSort, nil)
	prev := st.heapVar(ki)
	now := Fresh("now", IntSort)
	vc.assume(st, And(Ge(now, prev), Gt(now, IntC(0)), Ge(prev, IntC(0))))
	st.heap[ki.Name] = now
	return now
}

func init() {
	m := builtinModels
	unhandled := func(vc *VC, st *State, fn *ssa.Function, args []Val, rt types.Type) Val {
		return vc.defaultCall(st, fn.String(), fn, args, rt, false)
	}
	// ---- bytes.Buffer ----
	m["bytes.NewBuffer"] = func(vc *VC, fx *FuncCtx, st *State, fn *ssa.Function, args []Val, rt types.Type, instr ssa.Instruction) Val {
		b, ok := args[0].(*SliceV)
		if !ok {
			return unhandled(vc, st, fn, args, rt)
		}
		et := rt.(*types.Pointer).Elem()
		ref := vc.freshRef()
		st.storeKey(PHeap, typeKey(et), ref, nil, et, zeroVal(et))
		st.storeKey(PHeap, "bytes.Buffer.buf", ref, nil, types.NewSlice(types.Typ[types.Uint8]), b)
		vc.used["bytes.Buffer: modelled on its buf/off fields (NewBuffer, Bytes; binary.Read/Write through it)"] = true
		return &PtrV{Kind: PHeap, Base: ref, Key: typeKey(et), Elem: et}
	}
	m["(*bytes.Buffer).Bytes"] = func(vc *VC, fx *FuncCtx, st *State, fn *ssa.Function, args []Val, rt types.Type, instr ssa.Instruction) Val {
		_, buf, off, ok := vc.bufferParts(st, args[0])
		if !ok {
			return unhandled(vc, st, fn, args, rt)
		}
		return &SliceV{buf.Arr, Add(buf.Off, off), Sub(buf.Len, off), Sub(buf.Cap, off)}
	}
	m["(*bytes.Buffer).Len"] = func(vc *VC, fx *FuncCtx, st *State, fn *ssa.Function, args []Val, rt types.Type, instr ssa.Instruction) Val {
		_, buf, off, ok := vc.bufferParts(st, args[0])
		if !ok {
			return unhandled(vc, st, fn, args, rt)
		}
		return Sub(buf.Len, off)
	}
	// ---- encoding/binary ----
	m["encoding/binary.Size"] = func(vc *VC, fx *FuncCtx, st *State, fn *ssa.Function, args []Val, rt types.Type, instr ssa.Instruction) Val {
		if _, et, ok := vc.ifacePointee(args[0]); ok {
			if _, tot, ok := fixedLayout(et); ok {
				vc.used["encoding/binary.Size/Read/Write: a struct of fixed-size unsigned fields is the concatenation of its fields, little endian"] = true
				return IntC(int64(tot))
			}
		}
		return unhandled(vc, st, fn, args, rt)
	}
	m["encoding/binary.Read"] = func(vc *VC, fx *FuncCtx, st *State, fn *ssa.Function, args []Val, rt types.Type, instr ssa.Instruction) Val {
		bp, buf, off, ok := vc.bufferParts(st, args[0])
		dp, et, ok2 := vc.ifacePointee(args[2])
		if !ok || !ok2 {
			return unhandled(vc, st, fn, args, rt)
		}
		ws, tot, ok3 := fixedLayout(et)
		if !ok3 {
			return unhandled(vc, st, fn, args, rt)
		}
		vc.markEscaped(st, args[2])
		_, h := vc.byteContent(st)
		c := Select(h, buf.Arr)
		avail := Sub(buf.Len, off)
		enough := Ge(avail, IntC(int64(tot)))
		// on success the fields are decoded and the read offset advances; a short buffer gives an error and (as far
		// as callers may rely on) unspecified field values
		stT := under(et).(*types.Struct)
		pos := 0
		old := st.load(dp)
		osv, _ := old.(*StructV)
		nsv := &StructV{T: stT}
		for i, w := range ws {
			p0 := pos
			v := leValue(func(k int) *Term { return Select(c, Add(Add(buf.Off, off), IntC(int64(p0+k)))) }, w)
			if osv != nil {
				if ot, isT := osv.F[i].(*Term); isT {
					junk := Fresh("binread", ot.Sort)
					v = Ite(enough, v, junk)
				}
			}
			nsv.F = append(nsv.F, v)
			pos += w
		}
		st.store(dp, nsv)
		st.storeKey(PHeap, "bytes.Buffer.off", bp.Base, nil, types.Typ[types.Int], Ite(enough, Add(off, IntC(int64(tot))), buf.Len))
		errv := vc.newError(st, "binary.Read")
		vc.used["encoding/binary.Size/Read/Write: a struct of fixed-size unsigned fields is the concatenation of its fields, little endian"] = true
		return &IfaceV{Tag: Ite(enough, IntC(0), errv.Tag), Data: Ite(enough, IntC(0), errv.Data)}
	}
	m["encoding/binary.Write"] = func(vc *VC, fx *FuncCtx, st *State, fn *ssa.Function, args []Val, rt types.Type, instr ssa.Instruction) Val {
		bp, buf, off, ok := vc.bufferParts(st, args[0])
		if !ok {
			return unhandled(vc, st, fn, args, rt)
		}
		var bs []*Term
		if dp, et, ok2 := vc.ifacePointee(args[2]); ok2 {
			ws, _, ok3 := fixedLayout(et)
			sv, isS := st.load(dp).(*StructV)
			if !ok3 || !isS {
				return unhandled(vc, st, fn, args, rt)
			}
			for i, w := range ws {
				ft, isT := sv.F[i].(*Term)
				if !isT {
					return unhandled(vc, st, fn, args, rt)
				}
				bs = append(bs, leBytes(ft, w)...)
			}
		} else if iv, isI := args[2].(*IfaceV); isI {
			sl, isS := vc.boxed[iv.Data].(*SliceV)
			if !isS || !sl.Len.IsConst || !sl.Len.Int.IsInt64() || sl.Len.Int.Int64() > 256 {
				return unhandled(vc, st, fn, args, rt)
			}
			_, h := vc.byteContent(st)
			c := Select(h, sl.Arr)
			for i := int64(0); i < sl.Len.Int.Int64(); i++ {
				bs = append(bs, Select(c, Add(sl.Off, IntC(i))))
			}
		} else {
			return unhandled(vc, st, fn, args, rt)
		}
		if !(off.IsConst && off.Int.Sign() == 0) {
			return unhandled(vc, st, fn, args, rt)
		}
		vc.bufferAppend(st, bp, buf, off, bs)
		vc.used["encoding/binary.Size/Read/Write: a struct of fixed-size unsigned fields is the concatenation of its fields, little endian"] = true
		return &IfaceV{Tag: IntC(0), Data: IntC(0)}
	}
	// ---- crypto/hmac ----
	m["crypto/hmac.New"] = func(vc *VC, fx *FuncCtx, st *State, fn *ssa.Function, args []Val, rt types.Type, instr ssa.Instruction) Val {
		key, ok := args[1].(*SliceV)
		alg, size := "", 0
		if fv, isF := args[0].(*FuncV); isF {
			if f, isFn := fv.Fn.(*ssa.Function); isFn {
				switch f.String() {
				case "crypto/sha256.New":
					alg, size = "sha256", 32
				case "crypto/md5.New":
					alg, size = "md5", 16
				case "crypto/sha1.New":
					alg, size = "sha1", 20
				}
			}
		}
		if !ok || alg == "" {
			return unhandled(vc, st, fn, args, rt)
		}
		ref := vc.freshRef()
		if vc.macs == nil {
			vc.macs = map[*Term]*macState{}
		}
		vc.macs[ref] = &macState{alg: alg, size: size, key: key, known: true, pc: st.pc}
		vc.used["crypto/hmac: the digest is an uninterpreted function of algorithm, key bytes and message bytes (no collision resistance is assumed or needed)"] = true
		return &IfaceV{Tag: vc.typeTagNamed("*crypto/hmac.hmac"), Data: ref}
	}
	eq := func(vc *VC, fx *FuncCtx, st *State, fn *ssa.Function, args []Val, rt types.Type, instr ssa.Instruction) Val {
		a, ok1 := args[0].(*SliceV)
		b, ok2 := args[1].(*SliceV)
		if !ok1 || !ok2 {
			return unhandled(vc, st, fn, args, rt)
		}
		vc.used["bytes.Equal / hmac.Equal: true exactly when lengths and contents agree"] = true
		return bytesEqualModel(vc, st, a, b)
	}
	m["crypto/hmac.Equal"] = eq
	m["bytes.Equal"] = eq
	invokeModels["io.Writer.Write"] = func(vc *VC, fx *FuncCtx, st *State, args []Val, rt types.Type) (Val, bool) {
		iv, ok := args[0].(*IfaceV)
		if !ok {
			return nil, false
		}
		ms, ok := vc.macs[iv.Data]
		if !ok {
			return nil, false
		}
		p, isS := args[1].(*SliceV)
		if !isS || !ms.known || ms.pc != st.pc || !p.Len.IsConst || !p.Len.Int.IsInt64() || p.Len.Int.Int64() > 256 {
			ms.known = false
		} else {
			_, h := vc.byteContent(st)
			c := Select(h, p.Arr)
			for i := int64(0); i < p.Len.Int.Int64(); i++ {
				ms.bytes = append(ms.bytes, Select(c, Add(p.Off, IntC(i))))
			}
		}
		n := IntC(0)
		if isS {
			n = p.Len
		}
		return &TupleV{Vs: []Val{n, &IfaceV{Tag: IntC(0), Data: IntC(0)}}}, true
	}
	invokeModels["hash.Hash.Sum"] = func(vc *VC, fx *FuncCtx, st *State, args []Val, rt types.Type) (Val, bool) {
		iv, ok := args[0].(*IfaceV)
		if !ok {
			return nil, false
		}
		ms, ok := vc.macs[iv.Data]
		if !ok {
			return nil, false
		}
		pre, isS := args[1].(*SliceV)
		if !isS || !(pre.Len.IsConst && pre.Len.Int.Sign() == 0) {
			return nil, false
		}
		ki, h := vc.byteContent(st)
		ref := vc.freshRef()
		var content *Term
		if ms.known && ms.pc == st.pc {
			content = macResult(vc, st, ms.alg, ms.key, ms.bytes)
		} else {
			content = Fresh("mac", Select(h, ms.key.Arr).Sort)
		}
		st.heap[ki.Name] = Store(st.heapVar(ki), ref, content)
		n := IntC(int64(ms.size))
		return &SliceV{ref, IntC(0), n, n}, true
	}
	// ---- strings: case folding as a function ----
	m["strings.ToLower"] = func(vc *VC, fx *FuncCtx, st *State, fn *ssa.Function, args []Val, rt types.Type, instr ssa.Instruction) Val {
		s, ok := args[0].(*Term)
		if !ok {
			return unhandled(vc, st, fn, args, rt)
		}
		vc.used["strings.ToLower: a function of its argument (deterministic, idempotent); nothing else is assumed about the result"] = true
		r := App("strings.ToLower", StrSort, s)
		vc.addGlobalFact(Ge(StrLen(r), IntC(0)))
		vc.addGlobalFact(Eq(App("strings.ToLower", StrSort, r), r))
		return r
	}
	// ---- time ----
	nanos := func(v Val) (*Term, bool) { return timeNanos(v) }
	m["time.Unix"] = func(vc *VC, fx *FuncCtx, st *State, fn *ssa.Function, args []Val, rt types.Type, instr ssa.Instruction) Val {
		sec, ok1 := args[0].(*Term)
		ns, ok2 := args[1].(*Term)
		if !ok1 || !ok2 {
			return unhandled(vc, st, fn, args, rt)
		}
		vc.used["time.Time: modelled as a count of nanoseconds (Unix, Now, Add, Before, After, Round, Unix(), Until, Sub, IsZero, UTC); successive Now() values do not decrease"] = true
		return timeVal(rt, Add(Add(Mul(intOf(sec), IntC(1000000000)), intOf(ns)), IntBig(unixEpochNanos)))
	}
	m["time.Now"] = func(vc *VC, fx *FuncCtx, st *State, fn *ssa.Function, args []Val, rt types.Type, instr ssa.Instruction) Val {
		now := vc.tick(st)
		vc.used["time.Time: modelled as a count of nanoseconds (Unix, Now, Add, Before, After, Round, Unix(), Until, Sub, IsZero, UTC); successive Now() values do not decrease"] = true
		return timeVal(rt, now)
	}
	m["(time.Time).UTC"] = func(vc *VC, fx *FuncCtx, st *State, fn *ssa.Function, args []Val, rt types.Type, instr ssa.Instruction) Val {
		if ns, ok := nanos(args[0]); ok {
			return timeVal(rt, ns)
		}
		return unhandled(vc, st, fn, args, rt)
	}
	m["(time.Time).Add"] = func(vc *VC, fx *FuncCtx, st *State, fn *ssa.Function, args []Val, rt types.Type, instr ssa.Instruction) Val {
		ns, ok := nanos(args[0])
		d, ok2 := args[1].(*Term)
		if !ok || !ok2 {
			return unhandled(vc, st, fn, args, rt)
		}
		return timeVal(rt, Add(ns, intOf(d)))
	}
	m["(time.Time).Round"] = func(vc *VC, fx *FuncCtx, st *State, fn *ssa.Function, args []Val, rt types.Type, instr ssa.Instruction) Val {
		ns, ok := nanos(args[0])
		d, ok2 := args[1].(*Term)
		if !ok || !ok2 {
			return unhandled(vc, st, fn, args, rt)
		}
		r := Fresh("rounded", IntSort)
		dd := intOf(d)
		// |r - ns| <= d/2 (d > 0); r == ns when d <= 0
		vc.assume(st, Implies(Le(dd, IntC(0)), Eq(r, ns)))
		vc.assume(st, Implies(Gt(dd, IntC(0)), And(Le(Mul(IntC(2), Sub(r, ns)), dd), Le(Mul(IntC(2), Sub(ns, r)), dd))))
		return timeVal(rt, r)
	}
	cmp := func(f func(a, b *Term) *Term) modelFn {
		return func(vc *VC, fx *FuncCtx, st *State, fn *ssa.Function, args []Val, rt types.Type, instr ssa.Instruction) Val {
			a, ok := nanos(args[0])
			b, ok2 := nanos(args[1])
			if !ok || !ok2 {
				return unhandled(vc, st, fn, args, rt)
			}
			return f(a, b)
		}
	}
	m["(time.Time).Before"] = cmp(func(a, b *Term) *Term { return Lt(a, b) })
	m["(time.Time).After"] = cmp(func(a, b *Term) *Term { return Gt(a, b) })
	m["(time.Time).Equal"] = cmp(func(a, b *Term) *Term { return Eq(a, b) })
	m["(time.Time).Sub"] = cmp(func(a, b *Term) *Term { return Sub(a, b) })
	m["(time.Time).IsZero"] = func(vc *VC, fx *FuncCtx, st *State, fn *ssa.Function, args []Val, rt types.Type, instr ssa.Instruction) Val {
		if ns, ok := nanos(args[0]); ok {
			return Eq(ns, IntC(0))
		}
		return unhandled(vc, st, fn, args, rt)
	}
	m["(time.Time).Unix"] = func(vc *VC, fx *FuncCtx, st *State, fn *ssa.Function, args []Val, rt types.Type, instr ssa.Instruction) Val {
		if ns, ok := nanos(args[0]); ok {
			// floor division (the count is non-negative from year 1 on)
			return App("div", IntSort, Sub(ns, IntBig(unixEpochNanos)), IntC(1000000000))
		}
		return unhandled(vc, st, fn, args, rt)
	}
	m["(time.Time).UnixNano"] = func(vc *VC, fx *FuncCtx, st *State, fn *ssa.Function, args []Val, rt types.Type, instr ssa.Instruction) Val {
		if ns, ok := nanos(args[0]); ok {
			return Sub(ns, IntBig(unixEpochNanos))
		}
		return unhandled(vc, st, fn, args, rt)
	}
	m["time.Until"] = func(vc *VC, fx *FuncCtx, st *State, fn *ssa.Function, args []Val, rt types.Type, instr ssa.Instruction) Val {
		ns, ok := nanos(args[0])
		if !ok {
			return unhandled(vc, st, fn, args, rt)
		}
		now := vc.tick(st)
		return Sub(ns, now)
	}
}
