package main

import (
	"os"
	"fmt"
	"go/types"
	"sort"
	"strings"

	"golang.org/x/tools/go/ssa"
)

type FuncResult struct {
	Name     string
	FC       *FuncContract
	Obls     []*Obligation
	SkippedOther int // obligations of clauses tagged only for other properties (discharged by their checks)
	Used     []string
	Unmod    []string
	Notes    []string
	GFacts   []*Term
	Assumes  []*Term
	PreSat   *Obligation // vacuity: requires satisfiable
	Canary   *Obligation // vacuity: planted false assertion at exit must fail
	PathGuards []*Obligation // vacuity: the path to each contract obligation (post, call assertion, loop clause) is feasible
	Err      string
	Loops    int
	Instrs   int
	VC       *VC
	LemmaVars []lemmaVar
	LemmaBody *SX
	Lemma    *Lemma
	Final    *State
	Params   []Val
	Results  []Val
}

type lemmaVar struct {
	Name string
	T    types.Type
	V    *SV
}

func (p *Prog) ghost(name string) *GhostVar {
	for _, g := range p.CS.Ghosts {
		if g.Name == name {
			return g
		}
	}
	return nil
}

func newVC(prog *Prog, fn *ssa.Function, fc *FuncContract, reg *KeyRegistry, discovery bool) *VC {
	vc := &VC{prog: prog, fn: fn, fc: fc, reg: reg, discovery: discovery,
		params: map[string]*SV{}, used: map[string]bool{}, unmod: map[string]bool{}, callSeq: map[string]int{},
		oblNames: map[string]int{}, typeTags: map[string]int{}, boxed: map[*Term]Val{}, boxedType: map[*Term]types.Type{}, strDone: map[*Term]bool{}, inlineLimit: 60}
	vc.A0 = Var("A0", IntSort)
	vc.allocBase = vc.A0
	vc.allocBases = map[*Term]bool{vc.A0: true}
	knownAllocBases = map[*Term]bool{vc.A0: true}
	vc.cellTypes = map[int]types.Type{}
	vc.addGlobalFact(Gt(vc.A0, IntC(0)))
	if fc != nil && (fc.Flags["safe"] || fc.Flags["nopanic"]) {
		vc.safe = true
	}
	if fc != nil && fc.Flags["locksafe"] {
		vc.locksafe = true
	}
	if fc != nil && fc.Flags["nooverflow"] {
		vc.safe = true
		vc.nooverflow = true
	}
	return vc
}

// VerifyFunc generates the obligations of one function under contract.
func VerifyFunc(prog *Prog, fc *FuncContract) (res *FuncResult) {
	return VerifyFuncMode(prog, fc, 0)
}

// VerifyFuncMode with concretize > 0 unrolls every loop that many times instead of cutting it at its
// invariant: an under-approximation used only to search for real counterexamples.
func VerifyFuncMode(prog *Prog, fc *FuncContract, concretize int) (res *FuncResult) {
	fn := prog.FindFunc(fc)
	res = &FuncResult{Name: fc.Pkg + ":" + fc.Key(), FC: fc}
	if fn == nil {
		res.Err = "function not found in package (stale contract header)"
		return
	}
	res.Name = funcDisplayName(fn)
	defer func() {
		if r := recover(); r != nil {
			res.Err = fmt.Sprintf("engine failure: %v", r)
		}
	}()
	strLits, strLitOrder = map[string]*Term{}, nil
	reg := NewKeyRegistry()
	var vc *VC
	for pass := 0; pass < 5; pass++ {
		discovery := pass == 0
		reg.added = false
		vc = newVC(prog, fn, fc, reg, discovery)
		vc.concretize = concretize
		vc.run()
		if !discovery && !reg.added && !vc.lateKeys {
			break
		}
	}
	res.Obls = vc.obls
	res.VC, res.Final, res.Params, res.Results = vc, vc.final, vc.topParams, vc.topResults
	res.Used = sortedKeys(vc.used)
	res.Unmod = sortedKeys(vc.unmod)
	res.Notes = append(vc.notes, vc.autoInv...)
	for _, tg := range vc.extIfaceTags {
		for k, id := range vc.typeTags {
			if strings.Contains(k, repoModule) {
				vc.addGlobalFact(Not(Eq(tg, IntC(int64(id)))))
			}
		}
	}
	res.GFacts = append(vc.gfacts, strLitAxioms()...)
	res.Assumes = vc.assumes
	res.PreSat = vc.preSat
	res.Canary = vc.canary
	// reachability covers: an obligation whose path condition contradicts the assumptions made so far would hold
	// trivially (a wrong library model or a contradictory assumed clause shows up here)
	seenPC := map[*Term]bool{}
	for _, o := range vc.obls {
		switch o.Kind {
		case "post", "call-assert", "loop-keep", "loop-init":
		// (not "call-pre": a callee's precondition at a call site the repository never reaches - dead code, such as
		// the p2p shutdown at the end of replyDelSub, which refuses p2p topics at its start - holds trivially and
		// harmlessly; a contradictory assumption would also cut off the function's own postconditions, which are covered)
		default:
			continue
		}
		if o.PC == nil || seenPC[o.PC] || (o.PC.IsConst && o.PC.B) {
			continue
		}
		seenPC[o.PC] = true
		res.PathGuards = append(res.PathGuards, &Obligation{Name: o.Name + "#reachable", Kind: "vacuity-sat", PC: o.PC, Goal: False(), NAssume: o.NAssume, Fn: o.Fn, Tags: o.Tags})
	}
	// diagnostic (VERIF_ANTECEDENTS=1): a clause "A ==> B" whose antecedent can never hold on the path to it says
	// nothing; legitimate for some clauses (the function never does A), a hole for others. Listed, examined by hand.
	if os.Getenv("VERIF_ANTECEDENTS") != "" {
		for _, o := range vc.obls {
			switch o.Kind {
			case "post", "call-assert", "loop-keep", "loop-iter", "iterates":
			default:
				continue
			}
			if o.Goal == nil || o.Goal.Op != "=>" || len(o.Goal.Args) != 2 || hasQuantTerm(o.Goal.Args[0]) {
				continue
			}
			pc := o.Goal.Args[0]
			if o.PC != nil {
				pc = And(o.PC, pc)
			}
			res.PathGuards = append(res.PathGuards, &Obligation{Name: o.Name + "#antecedent", Kind: "vacuity-sat", PC: pc, Goal: False(), NAssume: o.NAssume, Fn: o.Fn, Tags: o.Tags})
		}
	}
	for _, b := range fn.Blocks {
		res.Instrs += len(b.Instrs)
	}
	return
}

func (vc *VC) run() {
	fn, fc := vc.fn, vc.fc
	st := &State{vc: vc, pc: True(), cells: map[int]Val{}, heap: map[string]*Term{}}
	if !vc.discovery {
		for _, k := range vc.reg.sorted() {
			ki := vc.reg.m[k]
			st.heap[k] = Var("H0:"+k, ki.Sort)
		}
	}
	// parameters
	var params []Val
	for _, p := range fn.Params {
		v, facts := vc.freshVal("p:"+p.Name(), p.Type())
		for _, f := range facts {
			vc.addGlobalFact(f)
		}
		vc.paramFacts(v, p.Type())
		params = append(params, v)
	}
	vc.topParams = params
	// a function literal verified on its own: each captured variable is a cell with an arbitrary (well-typed) value
	var freevars []Val
	for _, fv := range fn.FreeVars {
		elem := fv.Type().(*types.Pointer).Elem()
		ref := vc.freshRef()
		pv := &PtrV{Kind: PHeap, Base: ref, Key: typeKey(elem), Elem: elem}
		v, facts := vc.freshVal("fv:"+fv.Name(), elem)
		for _, f := range facts {
			vc.addGlobalFact(f)
		}
		vc.paramFacts(v, elem)
		st.storeKey(PHeap, pv.Key, ref, nil, elem, v)
		freevars = append(freevars, pv)
	}
	fx := vc.newFuncCtx(fn, params, freevars)
	fx.top = true
	fx.fc = fc
	fx.locals = map[string]*PtrV{}
	sig := fn.Signature
	env := &SpecEnv{vc: vc, st: st, old: st, vars: map[string]*SV{}, pkg: vc.prog.typesPkgOf(fc)}
	vc.bindParams(env, fc, sig, params)
	for i, fv := range fn.FreeVars {
		// captured variables are visible to the contract under their own names (their value at entry)
		pv := freevars[i].(*PtrV)
		if _, shadow := env.vars[fv.Name()]; !shadow {
			env.vars[fv.Name()] = &SV{V: st.load(pv), T: pv.Elem}
		}
	}
	for n, v := range env.vars {
		vc.params[n] = v
	}
	vc.entry = st.clone()
	env.st, env.old = vc.entry, vc.entry
	var reqs []*Term
	for _, r := range fc.Requires {
		g, err := env.evalBool(r.Expr)
		if err != nil {
			vc.specError(st, "pre:"+r.Label, r, err)
			continue
		}
		vc.assume(st, g)
		reqs = append(reqs, g)
	}
	// evaluating the preconditions may have materialised heap keys in the entry snapshot
	for k, v := range vc.entry.heap {
		if _, ok := st.heap[k]; !ok {
			st.heap[k] = v
		}
	}
	if !vc.discovery {
		vc.preSat = &Obligation{Name: vc.fnName() + "#vacuity:requires_sat", Kind: "vacuity-sat", PC: True(), Goal: Not(And(reqs...)), NAssume: len(vc.assumes), Fn: vc.fnName()}
	}
	fr := newFrame(nil)
	vc.execRegion(fx, nil, st, fr, nil)
	if len(fx.returns) == 0 {
		return
	}
	var sts []*State
	for _, r := range fx.returns {
		sts = append(sts, r.st)
	}
	final := vc.mergeStates(sts)
	nres := len(fx.returns[0].vals)
	results := make([]Val, nres)
	for i := 0; i < nres; i++ {
		var v Val
		for k := len(fx.returns) - 1; k >= 0; k-- {
			rv := fx.returns[k].vals[i]
			if v == nil {
				v = rv
				continue
			}
			if sameVal(rv, v) {
				continue
			}
			m, ok := mergeVals(fx.returns[k].st.pc, rv, v)
			if !ok {
				fv, _ := vc.freshVal("ret", sig.Results().At(i).Type())
				m = fv
				final.setTaint("incompatible return values merged")
			}
			v = m
		}
		results[i] = v
	}
	vc.final, vc.topResults = final, results
	penv := &SpecEnv{vc: vc, st: final, old: vc.entry, vars: map[string]*SV{}, pkg: env.pkg, fx: fx}
	for n, v := range vc.params {
		penv.vars[n] = v
	}
	for i := range results {
		sv := &SV{V: results[i], T: sig.Results().At(i).Type()}
		if i < len(fc.Results) {
			penv.vars[fc.Results[i]] = sv
		}
		if i == 0 {
			penv.vars["result"] = sv
		}
	}
	for _, e := range fc.Ensures {
		if e.Assumed {
			vc.used["assumed clause of "+vc.fnName()+": "+e.Src] = true
			continue
		}
		g, err := penv.evalBool(e.Expr)
		if err != nil {
			vc.specError(final, "post:"+e.Label, e, err)
			continue
		}
		vc.obligeTagged(final, "post:"+e.Label, "post", g, e.Tags, e.Src)
	}
	vc.frameObligations(final, penv)
	// a call-site assertion that matched no call is a stale contract (it would otherwise pass vacuously)
	if !vc.discovery && vc.dry == 0 {
		for _, ca := range fc.CallAsserts {
			if !vc.matchedAsserts[ca] {
				var seen []string
				for c := range vc.seenCallees {
					seen = append(seen, c)
				}
				sort.Strings(seen)
				o := &Obligation{Name: vc.fnName() + "#call:" + ca.Callee + ":" + ca.Clause.Label + ":unmatched", Kind: "stale", PC: True(), Goal: False(), Taint: "assertion names a callee that is never called here (callees: " + strings.Join(seen, ", ") + ")", Fn: vc.fnName(), Tags: tagsOf(fc), Src: ca.Clause.Src}
				vc.obls = append(vc.obls, o)
			}
		}
	}
	if !vc.discovery {
		vc.canary = &Obligation{Name: vc.fnName() + "#vacuity:exit_reachable", Kind: "vacuity-sat", PC: final.pc, Goal: False(), NAssume: len(vc.assumes), Fn: vc.fnName()}
	}
}

func (vc *VC) obligeTagged(st *State, name, kind string, goal *Term, tags []string, src string) {
	if len(tags) == 0 {
		tags = tagsOf(vc.fc)
	}
	vc.oblige(st, name, kind, goal, tags, src)
}

func (vc *VC) paramFacts(v Val, t types.Type) {
	switch x := v.(type) {
	case *Term:
		switch under(t).(type) {
		case *types.Pointer, *types.Map, *types.Chan:
			vc.addGlobalFact(Lt(x, vc.A0))
		}
	case *SliceV:
		vc.addGlobalFact(Lt(x.Arr, vc.A0))
	}
}

// frameObligations: every recorded write must hit a fresh object or a location listed in modifies.
func (vc *VC) frameObligations(final *State, penv *SpecEnv) {
	if vc.discovery || vc.dry > 0 {
		return
	}
	fc := vc.fc
	if fc.ModAll || fc.ModInferred {
		return
	}
	type item struct {
		p   *PtrV
		all bool
	}
	var items []item
	eenv := &SpecEnv{vc: vc, st: vc.entry, old: vc.entry, vars: penv.vars, pkg: penv.pkg}
	for _, m := range fc.Modifies {
		p, all, err := eenv.evalLoc(m)
		if err != nil {
			o := &Obligation{Name: vc.fnName() + "#frame:modifies_clause", Kind: "stale", PC: True(), Goal: False(), Taint: "modifies clause cannot be resolved: " + err.Error(), Fn: vc.fnName()}
			vc.obls = append(vc.obls, o)
			continue
		}
		items = append(items, item{p, all})
	}
	// group writes by key to keep the number of obligations small
	byKey := map[string][]writeRec{}
	var order []string
	for _, w := range vc.writes {
		if w.kind == PGlobal && strings.HasPrefix(w.key, "ghost:") {
			continue
		}
		if strings.HasPrefix(w.key, "ghost:") {
			continue
		}
		if _, ok := byKey[w.key]; !ok {
			order = append(order, w.key)
		}
		byKey[w.key] = append(byKey[w.key], w)
	}
	sort.Strings(order)
	for _, k := range order {
		var goals []*Term
		nAs := 0
		for _, w := range byKey[k] {
			if w.nAs > nAs {
				nAs = w.nAs
			}
			var ok []*Term
			if w.base != nil {
				ok = append(ok, Ge(w.base, vc.A0))
			}
			for _, it := range items {
				if it.p.Kind == PCell {
					continue
				}
				if !(keyHasPrefix(w.key, it.p.Key) || w.key == it.p.Key) {
					continue
				}
				if it.all && it.p.Base == nil {
					ok = append(ok, True())
					continue
				}
				if w.base == nil {
					continue
				}
				if it.p.Kind == PGlobal && w.kind == PGlobal {
					ok = append(ok, True())
					continue
				}
				if it.p.Base == nil {
					continue
				}
				c := Eq(w.base, it.p.Base)
				if !it.all && it.p.Idx != nil {
					if w.idx == nil || w.idx.Sort != it.p.Idx.Sort {
						continue
					}
					c = And(c, Eq(w.idx, it.p.Idx))
				}
				ok = append(ok, c)
			}
			goals = append(goals, Implies(w.pc, Or(ok...)))
		}
		g := And(goals...)
		if g.IsConst && g.B {
			continue
		}
		full := vc.fnName() + "#frame:" + k
		o := &Obligation{Name: full, Tags: tagsOf(fc), Kind: "frame", PC: True(), Goal: g, NAssume: len(vc.assumes), Taint: final.taint, Src: "writes to " + k + " are within modifies", Fn: vc.fnName()}
		vc.obls = append(vc.obls, o)
	}
}

// ---------- lemmas ----------

func VerifyLemma(prog *Prog, lm *Lemma) (res *FuncResult) {
	res = &FuncResult{Name: "lemma:" + lm.Name}
	defer func() {
		if r := recover(); r != nil {
			res.Err = fmt.Sprintf("engine failure: %v", r)
		}
	}()
	strLits, strLitOrder = map[string]*Term{}, nil
	reg := NewKeyRegistry()
	var vc *VC
	var g *Term
	for pass := 0; pass < 4; pass++ {
		reg.added = false
		vc = newVC(prog, nil, nil, reg, pass == 0)
		st := &State{vc: vc, pc: True(), cells: map[int]Val{}, heap: map[string]*Term{}}
		if pass > 0 {
			for _, k := range reg.sorted() {
				st.heap[k] = Var("H0:"+k, reg.m[k].Sort)
			}
		}
		vc.entry = st
		env := &SpecEnv{vc: vc, st: st, old: st, vars: map[string]*SV{}, pkg: prog.TypesPkg[pkgDirToPath(lm.Pkg)]}
		var err error
		// proving validity: the leading universal quantifiers are replaced by fresh constants up front, so that
		// every fact generated while executing called functions is ground and a counterexample is a plain model
		body := lm.Expr
		res.LemmaVars = nil
		for body.K == "quant" && body.Op == "forall" {
			for _, b := range body.Binders {
				t, terr := env.resolveType(b.Type)
				if terr != nil {
					res.Err = terr.Error()
					return
				}
				var sv *SV
				if sl, ok := under(t).(*types.Slice); ok && scalarSort(sl.Elem()) != nil {
					sq := &SeqV{A: Fresh("lv."+b.Name+".a", ArraySort(IntSort, scalarSort(sl.Elem()))), Len: Fresh("lv."+b.Name+".n", IntSort)}
					vc.addGlobalFact(Ge(sq.Len, IntC(0)))
					sv = &SV{V: sq, T: t}
				} else if s := scalarSort(t); s != nil {
					c := Fresh("lv."+b.Name, s)
					for _, f := range rangeFacts(c, t) {
						vc.addGlobalFact(f)
					}
					sv = &SV{V: c, T: t}
				} else {
					res.Err = "lemma variable " + b.Name + " has unsupported type " + b.Type
					return
				}
				env.vars[b.Name] = sv
				res.LemmaVars = append(res.LemmaVars, lemmaVar{b.Name, t, sv})
			}
			body = body.A[0]
		}
		res.LemmaBody = body
		res.Lemma = lm
		g, err = env.evalBool(body)
		if err != nil {
			res.Err = err.Error()
			return
		}
		if pass > 0 && !reg.added && !vc.lateKeys {
			break
		}
	}
	pk := strings.TrimPrefix(lm.Pkg, "./")
	if i := strings.LastIndex(pk, "/"); i >= 0 {
		pk = pk[i+1:]
	}
	o := &Obligation{Name: pk + ".lemma#" + lm.Name, Tags: lm.Tags, Kind: "lemma", PC: True(), Goal: g, NAssume: len(vc.assumes), Src: lm.Src, Fn: "lemma " + lm.Name}
	res.Obls = []*Obligation{o}
	res.GFacts = append(vc.gfacts, strLitAxioms()...)
	res.Assumes = vc.assumes
	res.Used = sortedKeys(vc.used)
	res.Unmod = sortedKeys(vc.unmod)
	res.VC = vc
	return
}
