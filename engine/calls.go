package main

import (
	"fmt"
	"os"
	"go/token"
	"go/types"
	"math/big"
	"strings"

	"golang.org/x/tools/go/ssa"
)

const maxInlineDepth = 12

// pureField names a function-valued struct field whose calls are declared pure.
type pureField string

func (vc *VC) calleeVal(fx *FuncCtx, fr *Frame, c *ssa.CallCommon) Val {
	if c.IsInvoke() {
		return nil
	}
	return vc.val(fx, fr, c.Value)
}

func (vc *VC) execCall(fx *FuncCtx, fr *Frame, st *State, c *ssa.CallCommon, instr ssa.Instruction, rt types.Type) Val {
	var args []Val
	for _, a := range c.Args {
		args = append(args, vc.val(fx, fr, a))
	}
	if c.IsInvoke() {
		recv := vc.val(fx, fr, c.Value)
		if fx != nil && fx.top && c.Method != nil {
			// (interface method calls are counted under the method's name)
			kf := vc.reg.get("ghost:called:"+c.Method.Name(), 0, IntSort, nil)
			st.heap[kf.Name] = Add(st.heapVar(kf), IntC(1))
		}
		return vc.callInvoke(fx, st, c, recv, args, rt, instr)
	}
	fv := vc.val(fx, fr, c.Value)
	// ghost: number of direct calls of each named function made in the body of the function under verification
	// (calls made by callees - contracted or inlined - and by closures are not counted: the counter is in nobody's
	// frame; clauses that say "exactly once" therefore speak about the body's own call sites)
	if sf, ok := c.Value.(*ssa.Function); ok && fx != nil && fx.top {
		kf := vc.reg.get("ghost:called:"+sf.Name(), 0, IntSort, nil)
		st.heap[kf.Name] = Add(st.heapVar(kf), IntC(1))
	}
	return vc.callValue(fx, st, fv, args, c, rt, instr)
}

func (vc *VC) callValue(fx *FuncCtx, st *State, fv Val, args []Val, c *ssa.CallCommon, rt types.Type, instr ssa.Instruction) Val {
	if fc, isChoice := fv.(*FuncChoice); isChoice {
		// the callee depends on the path: execute every alternative under its condition and join
		var outs []*State
		var rets []Val
		rest := st.clone()
		for _, a := range fc.Alts {
			s := st.clone()
			s.pc = And(st.pc, a.Cond)
			rest.pc = And(rest.pc, Not(a.Cond))
			if s.pc.IsConst && !s.pc.B {
				continue
			}
			r := vc.callValue(fx, s, a.F, args, c, rt, instr)
			if s.dead {
				continue
			}
			outs = append(outs, s)
			rets = append(rets, r)
		}
		if !(rest.pc.IsConst && !rest.pc.B) {
			// no recognised alternative applies: an unknown function may be called (everything havocked)
			r := vc.defaultCall(rest, "unrecognised function value", nil, args, rt, true)
			outs = append(outs, rest)
			rets = append(rets, r)
		}
		if len(outs) == 0 {
			st.pc = False()
			st.dead = true
			fv2, _ := vc.freshVal("noreturn", rt)
			return fv2
		}
		var res Val
		for i := len(outs) - 1; i >= 0; i-- {
			if res == nil {
				res = rets[i]
				continue
			}
			if rets[i] != nil {
				if m, ok := mergeVals(outs[i].pc, rets[i], res); ok {
					res = m
				}
			}
		}
		m := vc.mergeStates(outs)
		m.defers = st.defers
		st.assign(m)
		return res
	}
	f, ok := fv.(*FuncV)
	if !ok && c != nil && c.Value != nil {
		if nt, isNamed := types.Unalias(c.Value.Type()).(*types.Named); isNamed && nt.Obj().Pkg() != nil && nt.Obj().Pkg().Path() == "context" && nt.Obj().Name() == "CancelFunc" {
			// cancelling a context has no effect on repository state
			return nil
		}
	}
	if !ok && os.Getenv("VCGEN_DEBUG_DYN") != "" {
		if t, isT := fv.(*Term); isT {
			fmt.Fprintf(os.Stderr, "dynamic call in %s: term op=%s nargs=%d known=%d\n", funcDisplayName(fx.fn), t.Op, len(t.Args), len(vc.funcTerms))
			cur := t
			for d := 0; d < 6 && len(cur.Args) > 0; d++ {
				fmt.Fprintf(os.Stderr, "   %s(", cur.Op)
				for _, a := range cur.Args {
					fmt.Fprintf(os.Stderr, "%s ", a.Op)
				}
				fmt.Fprintln(os.Stderr, ")")
				cur = cur.Args[0]
			}
		} else {
			fmt.Fprintf(os.Stderr, "dynamic call in %s: value %T\n", funcDisplayName(fx.fn), fv)
		}
	}
	if !ok {
		vc.unmod["dynamic call of unknown function value in "+funcDisplayName(fx.fn)] = true
		return vc.defaultCall(st, "dynamic call", nil, args, rt, true)
	}
	switch fn := f.Fn.(type) {
	case pureField:
		// a function-valued field declared pure: deterministic, no effect; result is an uninterpreted function of
		// the function value and the arguments
		vc.used["calls through "+string(fn)+" are pure and deterministic (declared purefunc)"] = true
		ts := []*Term{f.Term}
		for i, a := range args {
			switch x := a.(type) {
			case *Term:
				ts = append(ts, x)
			case *SliceV:
				if sl, ok := under(c.Args[i].Type()).(*types.Slice); ok {
					if w, ok := isUnsigned(sl.Elem()); ok && w == 8 {
						ts = append(ts, vc.convert(st, x, c.Args[i].Type(), types.Typ[types.String]).(*Term))
						continue
					}
				}
				ts = append(ts, Fresh("purearg", IntSort))
			default:
				ts = append(ts, Fresh("purearg", IntSort))
			}
		}
		if s := scalarSort(rt); s != nil {
			return App("pure:"+string(fn), s, ts...)
		}
		fv, _ := vc.freshVal("pure", rt)
		return fv
	case *ssa.Builtin:
		return vc.callBuiltin(fx, st, fn, args, c, rt, instr)
	case *ssa.Function:
		return vc.callFunction(fx, st, fn, args, f.Bound, rt, instr)
	}
	return vc.defaultCall(st, "unknown callee", nil, args, rt, true)
}

func isRepoFunc(fn *ssa.Function) bool {
	if fn.Pkg != nil {
		return strings.HasPrefix(fn.Pkg.Pkg.Path(), repoModule)
	}
	if fn.Parent() != nil {
		return isRepoFunc(fn.Parent())
	}
	if fn.Object() != nil && fn.Object().Pkg() != nil {
		return strings.HasPrefix(fn.Object().Pkg().Path(), repoModule)
	}
	return false
}

// callAsserts evaluates the `assert at call` clauses of the function under verification that name this callee.
// In the clause $0 is the receiver (methods) and $1, $2, ... are the arguments.
func (vc *VC) callAsserts(fx *FuncCtx, st *State, callee string, sig *types.Signature, args []Val) {
	if fx == nil || fx.fc == nil || len(fx.fc.CallAsserts) == 0 || vc.dry > 0 {
		return
	}
	var matched []*CallAssert
	for _, ca := range fx.fc.CallAsserts {
		if callee == ca.Callee || strings.HasSuffix(callee, "."+ca.Callee) {
			matched = append(matched, ca)
		}
	}
	if vc.seenCallees == nil {
		vc.seenCallees = map[string]bool{}
	}
	vc.seenCallees[callee] = true
	if len(matched) == 0 {
		return
	}
	if vc.matchedAsserts == nil {
		vc.matchedAsserts = map[*CallAssert]bool{}
	}
	for _, ca := range matched {
		vc.matchedAsserts[ca] = true
	}
	vc.callSeq["$assert:"+callee]++
	k := vc.callSeq["$assert:"+callee]
	env := vc.specEnvFor(fx, st, nil)
	for n, v := range vc.params {
		if fx.top {
			env.vars[n] = v
		}
	}
	off := 1
	if sig.Recv() != nil && len(args) > 0 {
		env.vars["$0"] = &SV{V: args[0], T: sig.Recv().Type()}
		off = 0
	}
	for i := 0; i < sig.Params().Len(); i++ {
		idx := i + 1 - off
		if sig.Recv() != nil {
			idx = i + 1
		}
		if idx < len(args)+off {
			ai := i
			if sig.Recv() != nil {
				ai = i + 1
			}
			if ai < len(args) {
				env.vars[fmt.Sprintf("$%d", i+1)] = &SV{V: args[ai], T: sig.Params().At(i).Type()}
			}
		}
	}
	for _, ca := range matched {
		if ca.K != 0 && ca.K != k {
			continue
		}
		g, err := env.evalBool(ca.Clause.Expr)
		name := fmt.Sprintf("call:%s#%d:%s", shortName(callee), k, ca.Clause.Label)
		if err != nil {
			vc.specError(st, name, ca.Clause, err)
			continue
		}
		tags := ca.Clause.Tags
		if len(tags) == 0 {
			tags = tagsOf(fx.fc)
		}
		vc.oblige(st, name, "call-assert", g, tags, ca.Clause.Src)
	}
}

func (vc *VC) callFunction(fx *FuncCtx, st *State, fn *ssa.Function, args []Val, bound []Val, rt types.Type, instr ssa.Instruction) Val {
	if fx != nil && fx.top && (fn.Synthetic == "" || len(fn.Blocks) == 0) {
		vc.callAsserts(fx, st, funcDisplayName(fn), fn.Signature, args)
	}
	// synthetic wrappers (bound methods, pointer-receiver wrappers) are executed: they are tiny
	if fc := vc.prog.ContractForFunc(fn); fc != nil && (fn.Synthetic == "" || len(fn.Blocks) == 0) && !fc.Flags["inline"] {
		if fn != vc.fn || len(vc.inlineStk) > 0 || true {
			return vc.applyContract(fx, st, fc, fn.Signature, args, rt, funcDisplayName(fn))
		}
	}
	// library function described, for this argument's dynamic type, by a `models` contract of a repository package
	if obj := fn.Object(); obj != nil && obj.Pkg() != nil && len(args) > 0 {
		if variants := vc.prog.models[obj.Pkg().Path()+"#"+obj.Name()]; len(variants) > 0 {
			if iv, ok := args[0].(*IfaceV); ok {
				if bt, ok := vc.boxedType[iv.Data]; ok {
					for _, mfc := range variants {
						menv := &SpecEnv{vc: vc, st: st, old: st, vars: map[string]*SV{}, pkg: vc.prog.typesPkgOf(mfc)}
						if len(mfc.PTypes) == 0 {
							continue
						}
						pt, err := menv.resolveType(mfc.PTypes[0])
						if err != nil || !types.Identical(pt, bt) {
							continue
						}
						var unboxed Val = iv.Data
						if bv, ok := vc.boxed[iv.Data]; ok {
							unboxed = bv
						}
						msig := types.NewSignatureType(nil, nil, nil, types.NewTuple(types.NewVar(0, nil, mfc.Params[0], pt)), fn.Signature.Results(), false)
						return vc.applyContract(fx, st, mfc, msig, []Val{unboxed}, rt, fn.String()+"<"+types.TypeString(bt, qualShort)+">")
					}
				}
			}
		}
	}
	name := fn.String()
	if m, ok := builtinModels[name]; ok {
		return m(vc, fx, st, fn, args, rt, instr)
	}
	if r, ok := vc.protoGetter(st, fn, args); ok {
		return r
	}
	if fn.Synthetic != "" && len(fn.Blocks) > 0 {
		return vc.inline(fx, st, fn, args, bound, rt)
	}
	if len(fn.Blocks) > 0 && (isRepoFunc(fn) || fn.Parent() != nil) {
		recursive := false
		for _, g := range vc.inlineStk {
			if g == fn {
				recursive = true
			}
		}
		if fn == vc.fn {
			recursive = true
		}
		forced := false
		if fc := vc.prog.ContractForFunc(fn); fc != nil && fc.Flags["inline"] {
			forced = true
		}
		if !recursive && len(vc.inlineStk) < maxInlineDepth && (forced || vc.inlineable(fn)) {
			r := vc.inline(fx, st, fn, args, bound, rt)
			if forced {
				vc.assumeAfterInline(st, vc.prog.ContractForFunc(fn), fn.Signature, args, r)
			}
			return r
		}
		vc.unmod[funcDisplayName(fn)+" (no contract, not inlined: default frame)"] = true
		return vc.defaultCall(st, funcDisplayName(fn), fn, args, rt, true)
	}
	// external (library) function without model: it can reach repository state only through its arguments
	vc.used["external "+name+": result unconstrained; modifies only memory reachable from its pointer, slice and map arguments (and what closures passed to it may write)"] = true
	for _, a := range args {
		if f, ok := a.(*FuncV); ok {
			if cf, ok := f.Fn.(*ssa.Function); ok {
				if ws := vc.writeSetOf(cf); ws != nil {
					for _, p := range ws {
						st.havocPrefix(p, "closure passed to "+name)
						vc.noteHavoc(st, p)
					}
				} else {
					vc.havocAll(st, "closure passed to "+name)
				}
			}
		}
	}
	return vc.defaultCall(st, name, fn, args, rt, false)
}

// library functions that write through interface-typed arguments
var writesThroughIface = map[string]bool{
	"json.Unmarshal": true, "sort.Sort": true, "sort.Stable": true, "sort.Slice": true, "sort.SliceStable": true, "binary.Read": true,
	"fmt.Sscanf": true, "fmt.Sscan": true, "(*encoding/json.Decoder).Decode": true, "json.Decoder).Decode": true, "heap.Init": true, "heap.Push": true, "heap.Pop": true, "heap.Fix": true,
}

var purePkgs = map[string]bool{
	"fmt": true, "log": true, "strings": true, "strconv": true, "errors": true, "time": true, "unicode": true,
	"unicode/utf8": true, "math": true, "bytes": true, "path": true, "path/filepath": true, "regexp": true, "sort": true,
	"math/rand": true, "encoding/json": true, "encoding/base64": true, "encoding/base32": true, "encoding/binary": true, "net/url": true,
	"crypto/hmac": true, "crypto/sha256": true, "crypto/md5": true, "hash": true, "golang.org/x/text/language": true,
	"net/http": true, "mime": true, "os": true, "io": true, "sync/atomic": true, "sync": true, "context": true, "reflect": true,
	"golang.org/x/crypto/bcrypt": true, "net/textproto": true, "net": true, "container/list": true, "expvar": true,
	"github.com/tinode/chat/server/logs": true, "github.com/tinode/snowflake": true, "golang.org/x/crypto/xtea": true,
	"crypto/rand": true, "text/template": true, "html/template": true,
}

func isPurePkg(fn *ssa.Function) bool {
	var p *types.Package
	if fn.Pkg != nil {
		p = fn.Pkg.Pkg
	} else if fn.Object() != nil {
		p = fn.Object().Pkg()
	}
	if p == nil {
		return false
	}
	return purePkgs[p.Path()]
}

// inlineable decides whether an uncontracted repository function is executed in place.
func (vc *VC) inlineable(fn *ssa.Function) bool {
	if fn.Parent() != nil {
		return true // closures
	}
	n := 0
	for _, b := range fn.Blocks {
		n += len(b.Instrs)
	}
	return n <= vc.inlineLimit
}

func (vc *VC) inline(fx *FuncCtx, st *State, fn *ssa.Function, args, bound []Val, rt types.Type) Val {
	nfx := vc.newFuncCtx(fn, args, bound)
	nfx.fc = vc.prog.ContractForFunc(fn)
	if fn.Parent() != nil && nfx.fc == nil {
		nfx.locals = nil
	}
	nfx.locals = map[string]*PtrV{}
	vc.inlineStk = append(vc.inlineStk, fn)
	savedDefers := st.defers
	st.defers = nil
	vc.execRegion(nfx, nil, st, newFrame(nil), nil)
	vc.inlineStk = vc.inlineStk[:len(vc.inlineStk)-1]
	if len(nfx.returns) == 0 {
		st.pc = False()
		st.dead = true
		fv, _ := vc.freshVal("noreturn", rt)
		return fv
	}
	var sts []*State
	for _, r := range nfx.returns {
		sts = append(sts, r.st)
	}
	merged := vc.mergeStates(sts)
	nres := len(nfx.returns[0].vals)
	res := make([]Val, nres)
	for i := 0; i < nres; i++ {
		var v Val
		for k := len(nfx.returns) - 1; k >= 0; k-- {
			rv := nfx.returns[k].vals[i]
			if v == nil {
				v = rv
				continue
			}
			if sameVal(rv, v) {
				continue
			}
			m, ok := mergeVals(nfx.returns[k].st.pc, rv, v)
			if !ok {
				fv, _ := vc.freshVal("ret", fn.Signature.Results().At(i).Type())
				m = fv
				merged.setTaint("incompatible return values merged")
			}
			v = m
		}
		res[i] = v
	}
	merged.defers = savedDefers
	st.assign(merged)
	switch nres {
	case 0:
		return nil
	case 1:
		return res[0]
	}
	return &TupleV{Vs: res}
}

// bumpAlloc accounts for objects a (non-inlined) callee may have allocated: everything it returns lies below a new
// symbolic allocation base, everything allocated afterwards above it.
func (vc *VC) bumpAlloc(st *State, results ...Val) {
	nb := Fresh("ab.call", IntSort)
	vc.addGlobalFact(Ge(nb, Add(vc.allocBase, IntC(int64(vc.nAlloc)))))
	vc.allocBase, vc.nAlloc = nb, 0
	vc.allocBases[nb] = true
	knownAllocBases[nb] = true
	var walk func(v Val)
	walk = func(v Val) {
		switch x := v.(type) {
		case *Term:
			if x.Sort.Kind == SInt && x.IsVar {
				// only reference-typed results are passed here
				vc.assume(st, Lt(x, nb))
			}
		case *SliceV:
			vc.assume(st, Lt(x.Arr, nb))
		case *TupleV:
			for _, e := range x.Vs {
				walk(e)
			}
		}
	}
	for _, r := range results {
		walk(r)
	}
}

// touchReachable marks the heap keys that hold objects of the types reachable from a callee's result as possibly
// containing references to objects the callee allocated (so that their age bound is the post-call watermark).
func (vc *VC) touchReachable(st *State, t types.Type, depth int, seen map[string]bool) {
	if depth > 4 || t == nil {
		return
	}
	touch := func(prefix string) bool {
		if seen[prefix] {
			return false
		}
		seen[prefix] = true
		for _, name := range vc.reg.sorted() {
			if keyHasPrefix(name, prefix) {
				st.touchKey(name)
			}
		}
		return true
	}
	switch u := under(t).(type) {
	case *types.Pointer:
		if touch(typeKey(u.Elem())) {
			vc.touchReachable(st, u.Elem(), depth+1, seen)
		}
	case *types.Slice:
		if touch(elemKey(u.Elem())) {
			vc.touchReachable(st, u.Elem(), depth+1, seen)
		}
	case *types.Map:
		if touch(mapKey(u)) {
			vc.touchReachable(st, u.Elem(), depth+1, seen)
		}
	case *types.Struct:
		for i := 0; i < u.NumFields(); i++ {
			vc.touchReachable(st, u.Field(i).Type(), depth+1, seen)
		}
	case *types.Tuple:
		for i := 0; i < u.Len(); i++ {
			vc.touchReachable(st, u.At(i).Type(), depth+1, seen)
		}
	}
}

// assumeAfterInline: an `inline` contract may carry [assumed] clauses (e.g. "the result is this uninterpreted
// function of the arguments", i.e. determinism); they are assumed of the executed body's result.
func (vc *VC) assumeAfterInline(st *State, fc *FuncContract, sig *types.Signature, args []Val, r Val) {
	if fc == nil || st.dead {
		return
	}
	env := &SpecEnv{vc: vc, st: st, old: st, vars: map[string]*SV{}, pkg: vc.prog.typesPkgOf(fc)}
	vc.bindParams(env, fc, sig, args)
	var rs []Val
	if tv, ok := r.(*TupleV); ok {
		rs = tv.Vs
	} else if r != nil {
		rs = []Val{r}
	}
	for i := 0; i < sig.Results().Len() && i < len(rs); i++ {
		sv := &SV{V: rs[i], T: sig.Results().At(i).Type()}
		if i < len(fc.Results) {
			env.vars[fc.Results[i]] = sv
		}
		if i == 0 {
			env.vars["result"] = sv
		}
	}
	for _, e := range fc.Ensures {
		if !e.Assumed {
			continue
		}
		if g, err := env.evalBool(e.Expr); err == nil {
			vc.assume(st, g)
			vc.used["assumed clause of "+fc.Key()+": "+e.Src] = true
		}
	}
}

// defaultCall: unconstrained result; when effects is true every heap location is havocked
// (the callee is in scope of no contract), otherwise only memory reachable from pointer-like arguments.
func (vc *VC) defaultCall(st *State, name string, fn *ssa.Function, args []Val, rt types.Type, effects bool) Val {
	vc.closureNotExecuted(st, name, args)
	for _, a := range args {
		vc.markEscaped(st, a)
	}
	// objects the callee allocates are older than anything allocated after the call and may be stored in what it writes
	vc.bumpAlloc(st)
	if effects {
		ws := vc.writeSetOf(fn)
		if ws == nil {
			vc.havocAll(st, name)
		} else {
			for _, p := range ws {
				st.havocPrefix(p, "write set of "+name)
				vc.noteHavoc(st, p)
			}
		}
	} else if fn != nil || vc.pendingSig != nil {
		var sig *types.Signature
		if fn != nil {
			sig = fn.Signature
		} else {
			sig = vc.pendingSig
		}
		vc.pendingSig = nil
		k := 0
		if sig.Recv() != nil {
			vc.havocArg(st, args[0], sig.Recv().Type(), name)
			k = 1
		}
		for i := 0; i < sig.Params().Len() && k+i < len(args); i++ {
			vc.havocArg(st, args[k+i], sig.Params().At(i).Type(), name)
		}
	}
	if rt == nil {
		return nil
	}
	if tup, ok := rt.(*types.Tuple); ok && tup.Len() == 0 {
		return nil
	}
	fv, facts := vc.freshVal("ret:"+shortName(name), rt)
	for _, f := range facts {
		vc.assume(st, f)
	}
	var refRes []Val
	switch u := rt.(type) {
	case *types.Tuple:
		if tv, ok := fv.(*TupleV); ok {
			for i := 0; i < u.Len() && i < len(tv.Vs); i++ {
				switch under(u.At(i).Type()).(type) {
				case *types.Pointer, *types.Slice, *types.Map, *types.Chan:
					refRes = append(refRes, tv.Vs[i])
				}
			}
		}
	default:
		switch under(rt).(type) {
		case *types.Pointer, *types.Slice, *types.Map, *types.Chan:
			refRes = append(refRes, fv)
		}
	}
	vc.touchReachable(st, rt, 0, map[string]bool{})
	for _, r := range refRes {
		switch x := r.(type) {
		case *Term:
			vc.assume(st, Lt(x, vc.allocBase))
		case *SliceV:
			vc.assume(st, Lt(x.Arr, vc.allocBase))
		}
	}
	return fv
}

var curProp string

// isStable: the key belongs to a variable declared `stable` (assigned during start-up only).
func (vc *VC) isStable(name string) bool {
	for _, k := range vc.prog.CS.Stables {
		if keyHasPrefix(name, k) {
			vc.used["stable variable "+k+": assigned only during start-up (writers outside start-up code are reported as a violation)"] = true
			return true
		}
	}
	return false
}

func containsStr(l []string, x string) bool {
	for _, y := range l {
		if y == x {
			return true
		}
	}
	return false
}

func sharesTag(tags []string, fc *FuncContract) bool {
	if fc == nil {
		return true
	}
	for _, t := range tags {
		if fc.Tags[t] {
			return true
		}
	}
	return false
}

func shortName(s string) string {
	if i := strings.LastIndex(s, "/"); i >= 0 {
		s = s[i+1:]
	}
	return s
}

// library value types that are never modified after construction
var immutableLibTypes = []string{"encoding.base64.Encoding", "encoding.base32.Encoding", "log.Logger", "time.Location", "regexp.Regexp",
	"github.com.jmoiron.sqlx.Tx", "github.com.jmoiron.sqlx.DB", "database.sql.Tx", "database.sql.DB", "github.com.jmoiron.sqlx.Stmt", "database.sql.Stmt"}

func (vc *VC) havocArg(st *State, a Val, t types.Type, why string) {
	if pt, ok := under(t).(*types.Pointer); ok {
		for _, im := range immutableLibTypes {
			if typeKey(pt.Elem()) == im {
				return
			}
		}
	}
	switch u := under(t).(type) {
	case *types.Interface:
		if iv, ok := a.(*IfaceV); ok && writesThroughIface[shortName(why)] {
			if bt, ok := vc.boxedType[iv.Data]; ok {
				if bv, ok := vc.boxed[iv.Data]; ok {
					vc.havocArg(st, bv, bt, why)
				} else {
					vc.havocArg(st, iv.Data, bt, why)
				}
			} else {
				vc.havocAll(st, why+" (writes through an interface of unknown dynamic type)")
			}
		}
	case *types.Slice:
		if sv, ok := a.(*SliceV); ok {
			st.havocRow(elemKey(u.Elem()), sv.Arr, why)
			if _, nested := under(u.Elem()).(*types.Basic); nested {
				return
			}
			if _, isStruct := under(u.Elem()).(*types.Struct); isStruct && !hasRefs(u.Elem()) {
				return
			}
		}
		st.havocPrefix(elemKey(u.Elem()), why)
		vc.noteHavoc(st, elemKey(u.Elem()))
	case *types.Pointer:
		if p, ok := a.(*PtrV); ok && p.Kind == PCell {
			st.havocPlace(p)
			return
		}
		if p, ok := a.(*PtrV); ok && p.Kind == PHeap {
			st.havocPrefix(p.Key, why)
			vc.noteHavoc(st, p.Key)
			return
		}
		st.havocPrefix(typeKey(u.Elem()), why)
		vc.noteHavoc(st, typeKey(u.Elem()))
	case *types.Map:
		st.havocPrefix(mapKey(u), why)
		vc.noteHavoc(st, mapKey(u))
	}
}

func (vc *VC) havocAll(st *State, why string) {
	for _, name := range vc.reg.sorted() {
		if vc.isStable(name) || strings.HasPrefix(name, "ghost:called:") {
			// (the direct-call counters belong to the function under verification alone)
			continue
		}
		ki := vc.reg.m[name]
		before := st.heapVar(ki)
		st.heap[name] = Fresh("hv:"+name, ki.Sort)
		st.touchKey(name)
		st.restoreLocals(name, before)
		st.monotone(name, before)
	}
	vc.havocLog = append(vc.havocLog, "* ("+why+")")
	vc.noteHavoc(st, "*")
}

func (vc *VC) noteHavoc(st *State, prefix string) {
	if vc.dry > 0 || vc.discovery {
		return
	}
	vc.writes = append(vc.writes, writeRec{pc: st.pc, kind: PHeap, key: prefix, base: nil, nAs: len(vc.assumes)})
}

// writeSetOf returns the inferred write set (heap key prefixes) of a repository function, or nil if unknown.
func (vc *VC) writeSetOf(fn *ssa.Function) []string {
	if fn == nil || vc.prog.wsets == nil {
		return nil
	}
	ws, ok := vc.prog.wsets[fn]
	if !ok || ws.all {
		return nil
	}
	l := ws.list()
	if l == nil {
		l = []string{}
	}
	return l
}

// ---------- interface method calls ----------

func (vc *VC) callInvoke(fx *FuncCtx, st *State, c *ssa.CallCommon, recv Val, args []Val, rt types.Type, instr ssa.Instruction) Val {
	m := c.Method
	full := append([]Val{recv}, args...)
	if fx != nil && fx.top {
		vc.callAsserts(fx, st, recvQual(m)+"."+m.Name(), m.Type().(*types.Signature), full)
	}
	if fc := vc.prog.ContractForMethod(m); fc != nil {
		iv := st.toIface(recv)
		vc.check(fx, st, Not(Eq(iv.Tag, IntC(0))), "method call on nil interface", posOf(instr))
		return vc.applyContract(fx, st, fc, m.Type().(*types.Signature), full, rt, recvQual(m)+"."+m.Name())
	}
	if iv, ok := recv.(*IfaceV); ok {
		vc.check(fx, st, Not(Eq(iv.Tag, IntC(0))), "method call on nil interface", posOf(instr))
	}
	name := recvQual(m) + "." + m.Name()
	if m.Pkg() == nil && m.Name() == "Error" {
		r := Fresh("errstr", StrSort)
		vc.addGlobalFact(Ge(StrLen(r), IntC(0)))
		return r
	}
	if im, ok := invokeModels[name]; ok {
		if r, handled := im(vc, fx, st, full, rt); handled {
			return r
		}
	}
	if m.Pkg() != nil && (purePkgs[m.Pkg().Path()] || !strings.HasPrefix(m.Pkg().Path(), repoModule) || opaqueIfacePkg(m.Pkg().Path())) {
		// boundary interface (library, store, auth, push, media ...): no contract given. The callee cannot
		// reach the caller's objects except through pointer-like arguments, which are havocked.
		vc.used["interface method "+name+": result unconstrained; modifies only memory reachable from its pointer, slice and map arguments"] = true
		vc.pendingSig = m.Type().(*types.Signature)
		return vc.defaultCall(st, name, nil, full, rt, false)
	}
	vc.unmod["interface method "+name+" (no contract: everything havocked)"] = true
	return vc.defaultCall(st, name, nil, full, rt, true)
}

// opaqueIfacePkg lists repository packages whose interfaces are the server's boundary to storage, authentication,
// push, media and validation back ends.
func opaqueIfacePkg(path string) bool {
	for _, p := range []string{"/server/store", "/server/auth", "/server/push", "/server/media", "/server/validate", "/server/db", "/pbx"} {
		if strings.HasPrefix(path, repoModule+p) {
			return true
		}
	}
	return false
}

func recvQual(m *types.Func) string {
	sig := m.Type().(*types.Signature)
	rn, rp := recvTypeName(sig)
	if rp != nil {
		return pkgShort(rp) + "." + rn
	}
	return rn
}

// ---------- contracts at call sites ----------

func (vc *VC) bindParams(env *SpecEnv, fc *FuncContract, sig *types.Signature, args []Val) {
	k := 0
	if sig.Recv() != nil {
		if fc.RecvName != "" && len(args) > 0 {
			env.vars[fc.RecvName] = &SV{V: args[0], T: sig.Recv().Type()}
		}
		k = 1
	}
	for i := 0; i < sig.Params().Len(); i++ {
		if i < len(fc.Params) && k+i < len(args) {
			env.vars[fc.Params[i]] = &SV{V: args[k+i], T: sig.Params().At(i).Type()}
		}
	}
}

func (vc *VC) applyContract(fx *FuncCtx, st *State, fc *FuncContract, sig *types.Signature, args []Val, rt types.Type, callee string) Val {
	pkg := vc.prog.typesPkgOf(fc)
	env := &SpecEnv{vc: vc, st: st, old: st, vars: map[string]*SV{}, pkg: pkg}
	vc.bindParams(env, fc, sig, args)
	vc.closureNotExecuted(st, callee, args)
	for _, a := range args {
		vc.markEscaped(st, a)
	}
	vc.callSeq[callee]++
	k := vc.callSeq[callee]
	if fc.External || fc.Flags["trusted"] || vc.prog.FindFunc(fc) == nil {
		vc.used["assumed contract of "+callee] = true
	} else {
		vc.used["verified-elsewhere contract of "+callee] = true
	}
	for _, r := range fc.Requires {
		if r.Assumed {
			// an environment assumption of the callee (life-cycle, configuration): taken on trust there, not an
			// obligation of its callers
			vc.used["assumed precondition of "+callee+": "+r.Src] = true
			continue
		}
		g, err := env.evalBool(r.Expr)
		lbl := fmt.Sprintf("call:%s#%d:%s", shortName(callee), k, r.Label)
		if err != nil {
			vc.specError(st, lbl, r, err)
			continue
		}
		ptags := r.Tags
		if len(ptags) == 0 {
			ptags = tagsOf(vc.fc)
		}
		vc.oblige(st, lbl, "call-pre", g, ptags, r.Src)
	}
	pre := st.clone()
	// results (fresh; locations named in the frame may depend on them, e.g. the typestate of a returned object)
	var res []Val
	results := sig.Results()
	for i := 0; i < results.Len(); i++ {
		fv, facts := vc.freshVal("r:"+shortName(callee), results.At(i).Type())
		for _, f := range facts {
			vc.assume(st, f)
		}
		res = append(res, fv)
	}
	{
		var refRes []Val
		for i := 0; i < results.Len(); i++ {
			switch under(results.At(i).Type()).(type) {
			case *types.Pointer, *types.Slice, *types.Map, *types.Chan:
				refRes = append(refRes, res[i])
			}
		}
		vc.bumpAlloc(st, refRes...)
		vc.touchReachable(st, results, 0, map[string]bool{})
	}
	fvars := map[string]*SV{}
	for n, v := range env.vars {
		fvars[n] = v
	}
	for i := range res {
		if i < len(fc.Results) {
			fvars[fc.Results[i]] = &SV{V: res[i], T: results.At(i).Type()}
		}
	}
	// frame
	if fc.ModAll {
		vc.havocAll(st, "modifies * of "+callee)
	}
	if fc.ModInferred {
		ws := vc.writeSetOf(vc.prog.FindFunc(fc))
		if ws == nil {
			vc.havocAll(st, "inferred write set of "+callee+" is unbounded")
		} else {
			for _, p := range ws {
				st.havocPrefix(p, "inferred write set of "+callee)
				vc.noteHavoc(st, p)
			}
		}
	}
	var mods []*SX
	for _, m := range fc.Modifies {
		// *xs[*] where xs is a slice of interfaces holding pointers: the pointee of every element
		if m.K == "un" && m.Op == "*" && m.A[0].K == "idx" && m.A[0].A[1].K == "id" && m.A[0].A[1].Name == "#all" {
			env0 := &SpecEnv{vc: vc, st: pre, old: pre, vars: fvars, pkg: pkg}
			expanded := false
			if sv, err := env0.eval(m.A[0].A[0]); err == nil {
				if sl, ok := env0.value(sv).(*SliceV); ok && sl.Len.IsConst && sl.Len.Int.IsInt64() && sl.Len.Int.Int64() <= 16 {
					for i := int64(0); i < sl.Len.Int.Int64(); i++ {
						mods = append(mods, &SX{K: "un", Op: "*", A: []*SX{{K: "idx", A: []*SX{m.A[0].A[0], {K: "int", Val: big.NewInt(i)}}}}})
					}
					expanded = true
				}
			}
			if !expanded {
				vc.havocAll(st, "modifies through a slice of interfaces of unknown length, "+callee)
			}
			continue
		}
		mods = append(mods, m)
	}
	for _, m := range mods {
		env0 := &SpecEnv{vc: vc, st: pre, old: pre, vars: fvars, pkg: pkg}
		pl, all, err := env0.evalLoc(m)
		if err != nil {
			st.setTaint("modifies clause of " + callee + ": " + err.Error())
			continue
		}
		if all && pl.Key == "*" {
			vc.havocAll(st, "modifies through an interface of unknown dynamic type, "+callee)
		} else if all && pl.Kind == PGlobal && strings.HasPrefix(pl.Key, "ghost:") {
			st.havocPlace(pl)
		} else if all && pl.Kind == PHeap && pl.Base != nil && pl.Idx == nil {
			st.havocRow(pl.Key, pl.Base, "modifies of "+callee)
		} else if all {
			st.havocPrefix(pl.Key, "modifies of "+callee)
			vc.noteHavoc(st, pl.Key)
		} else {
			st.havocPlace(pl)
		}
	}
	if fc.External {
		// values produced by a library never have a dynamic type defined in this repository
		for _, r := range res {
			if iv, ok := r.(*IfaceV); ok {
				vc.extIfaceTags = append(vc.extIfaceTags, iv.Tag)
			}
		}
	}
	env2 := &SpecEnv{vc: vc, st: st, old: pre, vars: map[string]*SV{}, pkg: pkg}
	for n, v := range env.vars {
		env2.vars[n] = v
	}
	for i := range res {
		sv := &SV{V: res[i], T: results.At(i).Type()}
		if i < len(fc.Results) {
			env2.vars[fc.Results[i]] = sv
		}
		if i == 0 {
			env2.vars["result"] = sv
		}
	}
	for _, e := range fc.Ensures {
		g, err := env2.evalBool(e.Expr)
		if err != nil {
			if strings.Contains(err.Error(), "unknown identifier") {
				// the clause speaks about the callee's own local variables: it is proved inside the callee and
				// gives callers nothing
				continue
			}
			st.setTaint("ensures clause of " + callee + " (" + e.Label + "): " + err.Error())
			continue
		}
		if recordedFindings[callee+"#post:"+e.Label] {
			// a postcondition recorded as not holding: callers learn nothing from it
			vc.used["postcondition "+e.Label+" of "+callee+" is a recorded finding: not assumed at call sites"] = true
			continue
		}
		if curProp != "" && len(e.Tags) > 0 && !containsStr(e.Tags, curProp) && !sharesTag(e.Tags, vc.fc) && hasQuantTerm(g) {
			// a quantified fact established for another property: not needed here, and dropping an assumption is
			// always sound; it keeps the queries of large callers small
			vc.used["quantified ensures of "+callee+" tagged for other properties are not assumed"] = true
			continue
		}
		vc.assume(st, g)
	}
	switch len(res) {
	case 0:
		return nil
	case 1:
		return res[0]
	}
	return &TupleV{Vs: res}
}

// ---------- defers, goroutines, channels ----------

func (vc *VC) runDefers(fx *FuncCtx, fr *Frame, st *State) {
	for len(st.defers) > 0 {
		d := st.defers[len(st.defers)-1]
		st.defers = st.defers[:len(st.defers)-1]
		in := d.Instr.(*ssa.Defer)
		run := func(s *State) {
			if in.Call.IsInvoke() {
				recv := vc.val(fx, fr, in.Call.Value)
				vc.callInvoke(fx, s, &in.Call, recv, d.Args, nil, in)
				return
			}
			vc.callValue(fx, s, d.Fn, d.Args, &in.Call, nil, in)
		}
		if d.Guard.IsConst && d.Guard.B {
			run(st)
			continue
		}
		taken := st.clone()
		taken.pc = And(st.pc, d.Guard)
		skipped := st.clone()
		skipped.pc = And(st.pc, Not(d.Guard))
		run(taken)
		rest := taken.defers
		m := vc.mergeStates([]*State{taken, skipped})
		m.defers = rest
		st.assign(m)
	}
}

func (vc *VC) goStmt(fx *FuncCtx, fr *Frame, st *State, g *ssa.Go) {
	// The spawned goroutine is not executed. Its possible writes are applied as a havoc at the
	// spawn point; later interference is outside the model (listed as an assumption).
	vc.used["goroutines: effects of a spawned function are havocked at the spawn point only"] = true
	// everything the goroutine can see escapes
	if !g.Call.IsInvoke() {
		vc.markEscaped(st, vc.val(fx, fr, g.Call.Value))
	}
	for _, a := range g.Call.Args {
		vc.markEscaped(st, vc.val(fx, fr, a))
	}
	var fn *ssa.Function
	if !g.Call.IsInvoke() {
		if f, ok := vc.val(fx, fr, g.Call.Value).(*FuncV); ok {
			fn, _ = f.Fn.(*ssa.Function)
		}
	}
	// ghost: number of goroutines started (in total, and per started function)
	{
		kt := vc.reg.get("ghost:spawnedTotal", 0, IntSort, nil)
		st.heap[kt.Name] = Add(st.heapVar(kt), IntC(1))
		if fn != nil {
			kf := vc.reg.get("ghost:spawned:"+fn.Name(), 0, IntSort, nil)
			st.heap[kf.Name] = Add(st.heapVar(kf), IntC(1))
		}
	}
	// The event counters (values sent, received, goroutines started) count what this function and its synchronous
	// callees do; what the spawned goroutine sends or receives is not an event of this function.
	saved := map[string]*Term{}
	for _, name := range vc.reg.sorted() {
		if isEventCounter(name) {
			saved[name] = st.heapVar(vc.reg.m[name])
		}
	}
	defer func() {
		for name, t := range saved {
			st.heap[name] = t
		}
	}()
	if fn != nil {
		if ws := vc.writeSetOf(fn); ws != nil {
			for _, p := range ws {
				if isEventCounter(p) {
					continue
				}
				st.havocPrefix(p, "go "+funcDisplayName(fn))
				vc.noteHavoc(st, p)
			}
			return
		}
	}
	vc.havocAll(st, "go statement")
}

func isEventCounter(key string) bool {
	for _, p := range []string{"ghost:sent", "ghost:last", "ghost:taken", "ghost:spawned", "ghost:called"} {
		if strings.HasPrefix(key, p) {
			return true
		}
	}
	return false
}

func (vc *VC) send(fx *FuncCtx, fr *Frame, st *State, s *ssa.Send) {
	ch := st.toTerm(vc.val(fx, fr, s.Chan), s.Chan.Type())
	v := vc.val(fx, fr, s.X)
	vc.ghostSend(st, s.Chan.Type(), ch, v, s.X.Type())
}

// ghostSend counts messages placed on a channel (ghost outbox): "sent:<chan type>"[ch] += 1 and
// records the last value sent.
func (vc *VC) ghostSend(st *State, ct types.Type, ch *Term, v Val, vt types.Type) {
	vc.markEscaped(st, v)
	kt := vc.reg.get("ghost:sentTotal", 0, IntSort, nil)
	st.heap[kt.Name] = Add(st.heapVar(kt), IntC(1))
	key := "ghost:sent<" + chanKey(ct) + ">"
	ki := vc.reg.get(key, 1, IntSort, nil)
	h := st.heapVar(ki)
	st.heap[key] = Store(h, ch, Add(Select(h, ch), IntC(1)))
	vc.noteWrite(st, PHeap, key, ch, nil)
	lk := "ghost:last<" + chanKey(ct) + ">"
	if s := scalarSort(vt); s != nil {
		kl := vc.reg.get(lk, 1, s, nil)
		st.heap[lk] = Store(st.heapVar(kl), ch, st.toTerm(v, vt))
		st.touchKey(lk) // the value may be a reference allocated just now
		vc.noteWrite(st, PHeap, lk, ch, nil)
	} else if _, isStruct := under(vt).(*types.Struct); isStruct && v != nil {
		st.storeKey(PHeap, lk, ch, nil, vt, v)
	}
}

// ghostTake counts the values this function receives from a channel (ghost inbox): "taken<chan type>"[ch] += 1 when
// `when` holds, and records the last value received (scalar element types: pointers, numbers, strings).
func (vc *VC) ghostTake(st *State, ct types.Type, ch *Term, v Val, vt types.Type, when *Term) {
	key := "ghost:taken<" + chanKey(ct) + ">"
	ki := vc.reg.get(key, 1, IntSort, nil)
	h := st.heapVar(ki)
	cur := Select(h, ch)
	st.heap[key] = Store(h, ch, Ite(when, Add(cur, IntC(1)), cur))
	vc.noteWrite(st, PHeap, key, ch, nil)
	if s := scalarSort(vt); s != nil && v != nil {
		lk := "ghost:lasttaken<" + chanKey(ct) + ">"
		kl := vc.reg.get(lk, 1, s, nil)
		hl := st.heapVar(kl)
		st.heap[lk] = Store(hl, ch, Ite(when, st.toTerm(v, vt), Select(hl, ch)))
		st.touchKey(lk)
		vc.noteWrite(st, PHeap, lk, ch, nil)
	}
}

func (vc *VC) selectStmt(fx *FuncCtx, fr *Frame, st *State, s *ssa.Select) Val {
	n := len(s.States)
	idx := Fresh("select", IntSort)
	lo := IntC(0)
	if !s.Blocking {
		lo = IntC(-1)
	}
	vc.assume(st, And(Le(lo, idx), Lt(idx, IntC(int64(n)))))
	vs := []Val{idx, Fresh("recvok", BoolSort)}
	for i, ss := range s.States {
		if ss.Dir == types.SendOnly {
			// the send happens only in the chosen case
			ch := st.toTerm(vc.val(fx, fr, ss.Chan), ss.Chan.Type())
			taken := st.clone()
			taken.pc = And(st.pc, Eq(idx, IntC(int64(i))))
			vc.ghostSend(taken, ss.Chan.Type(), ch, vc.val(fx, fr, ss.Send), ss.Send.Type())
			skipped := st.clone()
			skipped.pc = And(st.pc, Not(Eq(idx, IntC(int64(i)))))
			m := vc.mergeStates([]*State{taken, skipped})
			m.defers = st.defers
			st.assign(m)
			continue
		}
		et := ss.Chan.Type().Underlying().(*types.Chan).Elem()
		fv, facts := vc.freshVal("selrecv", et)
		for _, f := range facts {
			vc.assume(st, f)
		}
		vc.recvFacts(fx, st, st.toTerm(vc.val(fx, fr, ss.Chan), ss.Chan.Type()), fv, et, Eq(idx, IntC(int64(i))))
		vc.ghostTake(st, ss.Chan.Type(), st.toTerm(vc.val(fx, fr, ss.Chan), ss.Chan.Type()), fv, et, Eq(idx, IntC(int64(i))))
		vs = append(vs, fv)
	}
	return &TupleV{Vs: vs}
}


func posOf(in ssa.Instruction) token.Pos {
	if in == nil {
		return token.NoPos
	}
	return in.Pos()
}


// recvFacts applies the `onrecv` assumptions of the function under verification to a value received from ch.
func (vc *VC) recvFacts(fx *FuncCtx, st *State, ch *Term, v Val, et types.Type, when *Term) {
	if fx == nil || fx.fc == nil {
		return
	}
	for _, rf := range fx.fc.RecvFacts {
		env := vc.specEnvFor(fx, st, nil)
		for n, p := range vc.params {
			if fx.top {
				env.vars[n] = p
			}
		}
		cv, err := env.eval(rf.Chan)
		if err != nil {
			if os.Getenv("VERIF_DEBUG") != "" { fmt.Fprintln(os.Stderr, "onrecv chan eval:", err) }
			continue
		}
		ct, ok := env.value(cv).(*Term)
		if !ok || ct != ch {
			continue
		}
		env.vars[rf.Var] = &SV{V: v, T: et}
		if g, err := env.evalBool(rf.Expr); err == nil {
			vc.assume(st, Implies(when, g))
			vc.used["environment assumption on received values: "+rf.Src] = true
		} else if !vc.discovery && vc.dry == 0 && vc.scratch == 0 {
			// an assumption that cannot be evaluated must not vanish silently
			o := &Obligation{Name: vc.fnName() + "#onrecv:" + rf.Var, Kind: "stale", PC: True(), Goal: False(), Taint: "onrecv clause cannot be resolved: " + err.Error(), Fn: vc.fnName()}
			vc.obls = append(vc.obls, o)
		}
	}
}

// protoGetter models the getters generated by protoc-gen-go for message types of package pbx: (*T).GetF() returns
// x.F, or the zero value when the receiver is nil (their bodies are not loaded; the generated code has exactly this
// shape).
func (vc *VC) protoGetter(st *State, fn *ssa.Function, args []Val) (Val, bool) {
	if len(fn.Blocks) > 0 || fn.Signature.Recv() == nil || len(args) != 1 || !strings.HasPrefix(fn.Name(), "Get") {
		return nil, false
	}
	pt, ok := fn.Signature.Recv().Type().Underlying().(*types.Pointer)
	if !ok {
		return nil, false
	}
	nt, ok := types.Unalias(pt.Elem()).(*types.Named)
	if !ok || nt.Obj().Pkg() == nil || !strings.HasSuffix(nt.Obj().Pkg().Path(), "/pbx") {
		return nil, false
	}
	stt, ok := nt.Underlying().(*types.Struct)
	if !ok || fn.Signature.Results().Len() != 1 {
		return nil, false
	}
	fname := fn.Name()[3:]
	for i := 0; i < stt.NumFields(); i++ {
		f := stt.Field(i)
		if f.Name() != fname || !types.Identical(f.Type(), fn.Signature.Results().At(0).Type()) {
			continue
		}
		recv := asPtr(args[0], pt.Elem())
		if recv.Kind != PHeap || recv.Base == nil || len(recv.Alts) > 0 {
			return nil, false
		}
		v := st.load(fieldPtr(recv, stt, i))
		z := zeroVal(f.Type())
		m, ok := mergeVals(Eq(recv.Base, IntC(0)), z, v)
		if !ok {
			return nil, false
		}
		vc.used["protobuf getters (*pbx.T).GetF(): return the field, the zero value for a nil receiver"] = true
		return m, true
	}
	return nil, false
}

// closureNotExecuted: under `locksafe` a closure that touches lock-protected fields must be executed in place (so that
// its accesses are checked); handing it to a callee that is summarised by a contract or a default frame would skip them.
func (vc *VC) closureNotExecuted(st *State, callee string, args []Val) {
	if !vc.locksafe || vc.dry > 0 || vc.discovery {
		return
	}
	if vc.guardedFns == nil {
		vc.guardedFns = map[string]bool{}
		for _, fns := range vc.prog.guardedAccessors() {
			for _, f := range fns {
				vc.guardedFns[f] = true
			}
		}
	}
	for _, a := range args {
		fv, ok := a.(*FuncV)
		if !ok {
			continue
		}
		if f, ok := fv.Fn.(*ssa.Function); ok && vc.guardedFns[f.String()] {
			o := &Obligation{Name: vc.fnName() + "#lock:closure " + f.Name() + " handed to " + callee, Kind: "stale", PC: st.pc, Goal: False(), Taint: "a closure touching lock-protected fields is passed to " + callee + ", which is not executed in place: its accesses cannot be checked (mark the callee `inline`)", Fn: vc.fnName(), Tags: tagsOf(vc.fc)}
			vc.obls = append(vc.obls, o)
		}
	}
}
