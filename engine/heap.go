package main

// Loads and stores through structured pointers.

import (
	"fmt"
	"go/types"
	"strings"
)

// asPtr views a pointer-typed value as a structured pointer to elem.
func asPtr(v Val, elem types.Type) *PtrV {
	switch p := v.(type) {
	case *PtrV:
		return p
	case *Term:
		return &PtrV{Kind: PHeap, Base: p, Key: typeKey(elem), Elem: elem}
	}
	panic(fmt.Sprintf("asPtr: unexpected value %T", v))
}

// ptrTerm converts a structured pointer to its SMT reference, if it denotes a whole object.
func (st *State) ptrTerm(p *PtrV) *Term {
	if len(p.Alts) > 0 {
		self := *p
		self.Alts = nil
		t := st.ptrTerm(&self)
		for i := len(p.Alts) - 1; i >= 0; i-- {
			t = Ite(p.Alts[i].Cond, st.ptrTerm(p.Alts[i].P), t)
		}
		return t
	}
	if p.Kind == PHeap && p.Idx == nil && p.Key == typeKey(p.Elem) {
		return p.Base
	}
	if p.Kind == PHeap && p.Idx == nil {
		// interior pointer: derived reference (over-approximates aliasing: no distinctness is assumed); nil (base 0,
		// which arises when nil and an interior pointer merge) stays nil
		a := App("iptr:"+p.Key, IntSort, p.Base)
		st.vc.addGlobalFact(Gt(a, IntC(0)))
		if p.Base.IsConst || p.Base.Op == "ite" {
			return Ite(Eq(p.Base, IntC(0)), IntC(0), a)
		}
		return a
	}
	if p.Kind == PHeap {
		a := App("eptr:"+p.Key, IntSort, p.Base, toIntIdx(p.Idx))
		st.vc.addGlobalFact(Gt(a, IntC(0)))
		if p.Base.IsConst || p.Base.Op == "ite" {
			return Ite(Eq(p.Base, IntC(0)), IntC(0), a)
		}
		return a
	}
	st.setTaint("address of a local or global escapes as a value (" + p.Key + ")")
	return Fresh("escaped", IntSort)
}

func toIntIdx(t *Term) *Term {
	if t.Sort.Kind == SInt {
		return t
	}
	if t.Sort.Kind == SBV {
		return BV2Nat(t)
	}
	return App("idx2int:"+t.Sort.String(), IntSort, t)
}

func (st *State) setTaint(why string) {
	if st.taint == "" {
		st.taint = why
	}
}

func fieldPtr(p *PtrV, st *types.Struct, i int) *PtrV {
	f := st.Field(i)
	if len(p.Alts) > 0 {
		self := *p
		self.Alts = nil
		np := fieldPtr(&self, st, i)
		for _, a := range p.Alts {
			np.Alts = append(np.Alts, PtrAlt{a.Cond, fieldPtr(a.P, st, i)})
		}
		return np
	}
	switch p.Kind {
	case PCell:
		np := *p
		np.Path = append(append([]int{}, p.Path...), i)
		np.Elem = f.Type()
		return &np
	default:
		np := *p
		np.Key = p.Key + "." + f.Name()
		np.Elem = f.Type()
		return &np
	}
}

// load reads a value of type p.Elem through p.
func (st *State) load(p *PtrV) Val {
	if p.Kind == PHeap && p.Idx == nil && len(p.Alts) == 0 && st.vc.frozen != nil && p.Key == typeKey(p.Elem) {
		if v, ok := st.vc.frozen[p.Base]; ok {
			return v
		}
	}
	if len(p.Alts) > 0 {
		self := *p
		self.Alts = nil
		v := st.load(&self)
		for i := len(p.Alts) - 1; i >= 0; i-- {
			m, ok := mergeVals(p.Alts[i].Cond, st.load(p.Alts[i].P), v)
			if !ok {
				st.setTaint("load through a pointer with alternatives of incompatible shapes")
				fv, _ := st.vc.freshVal("ptralt", p.Elem)
				return fv
			}
			v = m
		}
		return v
	}
	switch p.Kind {
	case PCell:
		v, ok := st.cells[p.Cell]
		if !ok {
			st.setTaint("read of a dead local cell")
			fv, _ := st.vc.freshVal("deadcell", p.Elem)
			return fv
		}
		for _, i := range p.Path {
			sv, ok := v.(*StructV)
			if !ok {
				panic(fmt.Sprintf("load: path into non-struct %T", v))
			}
			v = sv.F[i]
		}
		return v
	}
	v := st.loadKey(p.Kind, p.Key, p.Base, p.Idx, p.Elem, nil)
	if p.Kind == PHeap && p.Idx != nil && isWireMessagePtr(p.Elem) {
		if t, ok := v.(*Term); ok && t.Sort.Kind == SInt && len(freeBound(t)) == 0 && !st.vc.isOwnAlloc(p.Base) {
			// only for arrays the function did not allocate itself (decoded input): a slice the function has just
			// made holds nil elements until they are assigned
			st.vc.assume(st, Not(Eq(t, IntC(0))))
			st.vc.used["protobuf: repeated message fields decoded from the wire contain no nil elements"] = true
		}
	}
	return v
}

// isWireMessagePtr: pointer to a generated protobuf message type (package pbx).
func isWireMessagePtr(t types.Type) bool {
	pt, ok := under(t).(*types.Pointer)
	if !ok {
		return false
	}
	nt, ok := types.Unalias(pt.Elem()).(*types.Named)
	return ok && nt.Obj().Pkg() != nil && strings.HasSuffix(nt.Obj().Pkg().Path(), "/pbx")
}

func (st *State) dimsOf(kind PtrKind, idx *Term) int {
	if kind == PGlobal {
		return 0
	}
	if idx != nil {
		return 2
	}
	return 1
}

func (st *State) readLeaf(kind PtrKind, key string, base, idx *Term, leaf *Sort) *Term {
	var i2 *Sort
	if idx != nil {
		i2 = idx.Sort
	}
	ki := st.vc.reg.get(key, st.dimsOf(kind, idx), leaf, i2)
	h := st.heapVar(ki)
	switch ki.Dims {
	case 0:
		return h
	case 1:
		return Select(h, base)
	default:
		return Select(Select(h, base), idx)
	}
}

// watermark is the current allocation watermark: every existing object has a smaller reference.
func (st *State) watermark() *Term {
	return Add(st.vc.allocBase, IntC(int64(st.vc.nAlloc)))
}

// refBound: references read from a heap key were stored there no later than the key's last write.
func (st *State) refBound(key string) *Term {
	if b, ok := st.kbase[key]; ok {
		return b
	}
	if _, ok := st.heap[key]; ok || st.vc.discovery {
		if h, ok := st.heap[key]; ok && h.IsVar && len(h.Op) > 3 && h.Op[:3] == "H0:" {
			return st.vc.A0
		}
	}
	return st.watermark()
}

func (st *State) touchKey(key string) {
	if st.kbase == nil {
		st.kbase = map[string]*Term{}
	}
	st.kbase[key] = st.watermark()
}

func (st *State) writeLeaf(kind PtrKind, key string, base, idx *Term, v *Term) {
	st.touchKey(key)
	var i2 *Sort
	if idx != nil {
		i2 = idx.Sort
	}
	ki := st.vc.reg.get(key, st.dimsOf(kind, idx), v.Sort, i2)
	h := st.heapVar(ki)
	switch ki.Dims {
	case 0:
		st.heap[key] = v
	case 1:
		st.heap[key] = Store(h, base, v)
	default:
		st.heap[key] = Store(h, base, Store(Select(h, base), idx, v))
	}
	st.vc.noteWrite(st, kind, key, base, idx)
}

func (st *State) loadKey(kind PtrKind, key string, base, idx *Term, t types.Type, _ interface{}) Val {
	if s := scalarSort(t); s != nil {
		v := st.readLeaf(kind, key, base, idx, s)
		st.vc.loadFactsB(st, v, t, st.refBound(key))
		if _, isFn := under(t).(*types.Signature); isFn && st.vc.prog != nil && st.vc.prog.pureFields[key] {
			return &FuncV{Fn: pureField(key), Term: v}
		}
		if _, isFn := under(t).(*types.Signature); isFn {
			// a function value stored earlier in this very execution is recognised again
			if fv := st.vc.funcFromTerm(v); fv != nil {
				return fv
			}
		}
		return v
	}
	switch u := under(t).(type) {
	case *types.Slice:
		sv := &SliceV{st.readLeaf(kind, key+"#arr", base, idx, IntSort), st.readLeaf(kind, key+"#off", base, idx, IntSort),
			st.readLeaf(kind, key+"#len", base, idx, IntSort), st.readLeaf(kind, key+"#cap", base, idx, IntSort)}
		if len(freeBound(sv.Arr)) == 0 {
			for _, f := range sliceFacts(sv) {
				st.vc.assume(st, f)
			}
			st.vc.assume(st, Lt(sv.Arr, st.refBound(key+"#arr")))
		}
		return sv
	case *types.Interface:
		iv := &IfaceV{st.readLeaf(kind, key+"#tag", base, idx, IntSort), st.readLeaf(kind, key+"#data", base, idx, IntSort)}
		if len(freeBound(iv.Tag)) == 0 {
			st.vc.assume(st, Ge(iv.Tag, IntC(0)))
		}
		return iv
	case *types.Struct:
		sv := &StructV{T: u}
		for i := 0; i < u.NumFields(); i++ {
			sv.F = append(sv.F, st.loadKey(kind, key+"."+u.Field(i).Name(), base, idx, u.Field(i).Type(), nil))
		}
		return sv
	case *types.Array:
		if s := scalarSort(u.Elem()); s != nil {
			return &ArrV{A: st.readLeaf(kind, key+"#a", base, idx, ArraySort(IntSort, s)), N: u.Len()}
		}
	}
	return st.readLeaf(kind, key+"#opaque", base, idx, IntSort)
}

func (st *State) store(p *PtrV, v Val) {
	if len(p.Alts) > 0 {
		// conditional store into every alternative
		savedPC := st.pc
		none := True()
		for _, a := range p.Alts {
			c := And(none, a.Cond)
			none = And(none, Not(a.Cond))
			old := st.load(a.P)
			m, ok := mergeVals(c, v, old)
			if !ok {
				st.setTaint("store through a pointer with alternatives of incompatible shapes")
				continue
			}
			st.pc = And(savedPC, c)
			st.store(a.P, m)
		}
		self := *p
		self.Alts = nil
		old := st.load(&self)
		if m, ok := mergeVals(none, v, old); ok {
			st.pc = And(savedPC, none)
			st.store(&self, m)
		} else {
			st.setTaint("store through a pointer with alternatives of incompatible shapes")
		}
		st.pc = savedPC
		return
	}
	switch p.Kind {
	case PCell:
		if len(p.Path) == 0 {
			st.cells[p.Cell] = v
			return
		}
		st.cells[p.Cell] = updatePath(st.cells[p.Cell], p.Path, v)
		return
	}
	st.storeKey(p.Kind, p.Key, p.Base, p.Idx, p.Elem, v)
}

func updatePath(cur Val, path []int, v Val) Val {
	if len(path) == 0 {
		return v
	}
	sv, ok := cur.(*StructV)
	if !ok {
		panic(fmt.Sprintf("updatePath: non-struct %T", cur))
	}
	n := &StructV{T: sv.T, F: append([]Val{}, sv.F...)}
	n.F[path[0]] = updatePath(sv.F[path[0]], path[1:], v)
	return n
}

func (st *State) storeKey(kind PtrKind, key string, base, idx *Term, t types.Type, v Val) {
	if scalarSort(t) == nil || isRefLike(t) {
		st.vc.escWhy = "store to " + key
		if _, isLocal := st.vc.localObjs[base]; isLocal && base != nil {
			// stored into an object of ours that nobody else can reach yet: the value escapes when the container does
			if st.vc.heldBy == nil {
				st.vc.heldBy = map[*Term][]Val{}
			}
			st.vc.heldBy[base] = append(st.vc.heldBy[base], v)
		} else {
			st.vc.markEscaped(st, v)
		}
	}
	if s := scalarSort(t); s != nil {
		st.writeLeaf(kind, key, base, idx, st.toTerm(v, t))
		return
	}
	switch u := under(t).(type) {
	case *types.Slice:
		sv := v.(*SliceV)
		st.writeLeaf(kind, key+"#arr", base, idx, sv.Arr)
		st.writeLeaf(kind, key+"#off", base, idx, sv.Off)
		st.writeLeaf(kind, key+"#len", base, idx, sv.Len)
		st.writeLeaf(kind, key+"#cap", base, idx, sv.Cap)
		return
	case *types.Interface:
		iv := st.toIface(v)
		st.writeLeaf(kind, key+"#tag", base, idx, iv.Tag)
		st.writeLeaf(kind, key+"#data", base, idx, iv.Data)
		return
	case *types.Struct:
		sv, ok := v.(*StructV)
		if !ok {
			panic(fmt.Sprintf("storeKey: struct expected, got %T", v))
		}
		for i := 0; i < u.NumFields(); i++ {
			st.storeKey(kind, key+"."+u.Field(i).Name(), base, idx, u.Field(i).Type(), sv.F[i])
		}
		return
	case *types.Array:
		if s := scalarSort(u.Elem()); s != nil {
			av, ok := v.(*ArrV)
			if ok {
				st.writeLeaf(kind, key+"#a", base, idx, av.A)
				return
			}
		}
	}
	t0, ok := v.(*Term)
	if !ok {
		t0 = Fresh("opaque", IntSort)
	}
	st.writeLeaf(kind, key+"#opaque", base, idx, t0)
}

// toTerm converts a scalar-typed value to its term (pointers become references).
func (st *State) toTerm(v Val, t types.Type) *Term {
	switch x := v.(type) {
	case *Term:
		return x
	case *PtrV:
		return st.ptrTerm(x)
	case *FuncV:
		if x.Term == nil {
			x.Term = Fresh("funcval", IntSort)
			st.vc.addGlobalFact(Gt(x.Term, IntC(0)))
		}
		if st.vc.funcTerms == nil {
			st.vc.funcTerms = map[*Term]*FuncV{}
		}
		st.vc.funcTerms[x.Term] = x
		return x.Term
	case nil:
		return zeroTerm(scalarSort(t))
	}
	panic(fmt.Sprintf("toTerm: %T for %s", v, t))
}

func (st *State) toIface(v Val) *IfaceV {
	switch x := v.(type) {
	case *IfaceV:
		return x
	case *Term:
		// opaque: treat as data with unknown tag
		return &IfaceV{Tag: Fresh("tag", IntSort), Data: x}
	}
	panic(fmt.Sprintf("toIface: %T", v))
}

// havocPrefix replaces every heap key that has the given prefix by a fresh array.
func (st *State) havocPrefix(prefix string, why string) {
	for _, name := range st.vc.reg.sorted() {
		if keyHasPrefix(name, prefix) {
			if st.vc.isStable(name) {
				continue
			}
			ki := st.vc.reg.m[name]
			before := st.heapVar(ki)
			st.heap[name] = Fresh("hv:"+name, ki.Sort)
			st.touchKey(name)
			st.restoreLocals(name, before)
			st.monotone(name, before)
		}
	}
	st.vc.havocLog = append(st.vc.havocLog, prefix+" ("+why+")")
}

// havocRow havocs, for every key under prefix, only the row belonging to one array / object (base).
func (st *State) havocRow(prefix string, base *Term, why string) {
	for _, name := range st.vc.reg.sorted() {
		if keyHasPrefix(name, prefix) {
			ki := st.vc.reg.m[name]
			if ki.Sort.Kind != SArray {
				st.heap[name] = Fresh("hv:"+name, ki.Sort)
				st.touchKey(name)
				continue
			}
			st.heap[name] = Store(st.heapVar(ki), base, Fresh("hvrow:"+name, ki.Sort.Elem))
			st.touchKey(name)
			st.vc.noteWrite(st, PHeap, name, base, nil)
		}
	}
	st.vc.havocLog = append(st.vc.havocLog, prefix+"[one array] ("+why+")")
}

func keyHasPrefix(name, prefix string) bool {
	if !strings.HasPrefix(name, prefix) {
		return false
	}
	if len(name) == len(prefix) {
		return true
	}
	c := name[len(prefix)]
	return c == '.' || c == '#'
}

// havocLoc havocs one location (all components) of a place.
func (st *State) havocPlace(p *PtrV) {
	if p.Kind == PCell && p.Cell < 0 {
		return
	}
	if p.Kind == PGlobal && strings.HasPrefix(p.Key, "ghost:") {
		ki := st.vc.reg.m[p.Key]
		if ki == nil {
			return
		}
		cur := st.heapVar(ki)
		if p.Idx != nil && ki.Sort.Kind == SArray {
			st.heap[p.Key] = Store(cur, p.Idx, Fresh("hv:"+p.Key, ki.Sort.Elem))
		} else {
			st.heap[p.Key] = Fresh("hv:"+p.Key, ki.Sort)
		}
		return
	}
	if p.Kind == PCell {
		fv, facts := st.vc.freshVal("hv", p.Elem)
		st.store(p, fv)
		for _, f := range facts {
			st.vc.assume(st, f)
		}
		return
	}
	fv, facts := st.vc.freshVal("hv:"+p.Key, p.Elem)
	st.storeKey(p.Kind, p.Key, p.Base, p.Idx, p.Elem, fv)
	for _, f := range facts {
		st.vc.assume(st, f)
	}
}

// mergeVals builds ite(c, a, b) structurally.
func mergeVals(c *Term, a, b Val) (Val, bool) {
	if a == nil {
		return b, true
	}
	if b == nil {
		return a, true
	}
	switch x := a.(type) {
	case *Term:
		y, ok := b.(*Term)
		if !ok || x.Sort != y.Sort {
			if py, ok2 := b.(*PtrV); ok2 && py.Kind == PHeap && py.Idx == nil && py.Key == typeKey(py.Elem) {
				return Ite(c, x, py.Base), true
			}
			if fy, ok2 := b.(*FuncV); ok2 && x.IsConst && x.Sort.Kind == SInt && x.Int.Sign() == 0 {
				return &FuncChoice{Alts: []FuncAlt{{Not(c), fy}}}, true
			}
			if fy, ok2 := b.(*FuncChoice); ok2 && x.IsConst && x.Sort.Kind == SInt && x.Int.Sign() == 0 {
				n := &FuncChoice{}
				for _, a := range fy.Alts {
					n.Alts = append(n.Alts, FuncAlt{And(Not(c), a.Cond), a.F})
				}
				return n, true
			}
			if py, ok2 := b.(*PtrV); ok2 && py.Kind == PHeap && len(py.Alts) == 0 && x.IsConst && x.Sort.Kind == SInt && x.Int.Sign() == 0 {
				// nil merged with an interior/element pointer: nil is the pointer with base 0
				n := *py
				n.Base = Ite(c, IntC(0), py.Base)
				return &n, true
			}
			if py, ok2 := b.(*PtrV); ok2 && x.Sort.Kind == SInt && py.Elem != nil {
				return mergeVals(c, &PtrV{Kind: PHeap, Base: x, Key: typeKey(py.Elem), Elem: py.Elem}, py)
			}
			return nil, false
		}
		return Ite(c, x, y), true
	case *SliceV:
		y, ok := b.(*SliceV)
		if !ok {
			return nil, false
		}
		return &SliceV{Ite(c, x.Arr, y.Arr), Ite(c, x.Off, y.Off), Ite(c, x.Len, y.Len), Ite(c, x.Cap, y.Cap)}, true
	case *IfaceV:
		y, ok := b.(*IfaceV)
		if !ok {
			return nil, false
		}
		return &IfaceV{Ite(c, x.Tag, y.Tag), Ite(c, x.Data, y.Data)}, true
	case *StructV:
		y, ok := b.(*StructV)
		if !ok || len(x.F) != len(y.F) {
			return nil, false
		}
		n := &StructV{T: x.T}
		for i := range x.F {
			m, ok := mergeVals(c, x.F[i], y.F[i])
			if !ok {
				return nil, false
			}
			n.F = append(n.F, m)
		}
		return n, true
	case *TupleV:
		y, ok := b.(*TupleV)
		if !ok || len(x.Vs) != len(y.Vs) {
			return nil, false
		}
		n := &TupleV{}
		for i := range x.Vs {
			m, ok := mergeVals(c, x.Vs[i], y.Vs[i])
			if !ok {
				return nil, false
			}
			n.Vs = append(n.Vs, m)
		}
		return n, true
	case *ArrV:
		y, ok := b.(*ArrV)
		if !ok {
			return nil, false
		}
		return &ArrV{A: Ite(c, x.A, y.A), N: x.N}, true
	case *PtrV:
		switch y := b.(type) {
		case *PtrV:
			if x == y {
				return x, true
			}
			compatible := len(x.Alts) == 0 && len(y.Alts) == 0 && x.Kind == y.Kind && x.Key == y.Key && x.Cell == y.Cell && len(x.Path) == len(y.Path) && (x.Idx == nil) == (y.Idx == nil)
			if compatible {
				for i := range x.Path {
					if x.Path[i] != y.Path[i] {
						compatible = false
					}
				}
			}
			if !compatible {
				// pointers of different shapes: keep both (x under c, else y)
				n := *y
				n.Alts = nil
				for _, a := range x.Alts {
					n.Alts = append(n.Alts, PtrAlt{And(c, a.Cond), a.P})
				}
				xs := *x
				xs.Alts = nil
				n.Alts = append(n.Alts, PtrAlt{c, &xs})
				n.Alts = append(n.Alts, y.Alts...)
				return &n, true
			}
			n := *x
			if x.Base != nil {
				n.Base = Ite(c, x.Base, y.Base)
			}
			if x.Idx != nil {
				n.Idx = Ite(c, x.Idx, y.Idx)
			}
			return &n, true
		case *Term:
			if x.Kind == PHeap && x.Idx == nil && x.Key == typeKey(x.Elem) {
				return Ite(c, x.Base, y), true
			}
			if x.Kind == PHeap && len(x.Alts) == 0 && y.IsConst && y.Sort.Kind == SInt && y.Int.Sign() == 0 {
				n := *x
				n.Base = Ite(c, x.Base, IntC(0))
				return &n, true
			}
			if y.Sort.Kind == SInt && x.Elem != nil {
				return mergeVals(c, x, &PtrV{Kind: PHeap, Base: y, Key: typeKey(x.Elem), Elem: x.Elem})
			}
		}
		return nil, false
	case *FuncV:
		y, ok := b.(*FuncV)
		if ok && x.Fn == y.Fn && len(x.Bound) == len(y.Bound) {
			same := true
			for i := range x.Bound {
				if x.Bound[i] != y.Bound[i] {
					same = false
				}
			}
			if same {
				return x, true
			}
		}
		if ok {
			return &FuncChoice{Alts: []FuncAlt{{c, x}, {Not(c), y}}}, true
		}
		if yc, ok := b.(*FuncChoice); ok {
			n := &FuncChoice{Alts: []FuncAlt{{c, x}}}
			for _, a := range yc.Alts {
				n.Alts = append(n.Alts, FuncAlt{And(Not(c), a.Cond), a.F})
			}
			return n, true
		}
		if yt, ok := b.(*Term); ok && yt.IsConst && yt.Sort.Kind == SInt && yt.Int.Sign() == 0 {
			// nil function value on the other path
			return &FuncChoice{Alts: []FuncAlt{{c, x}}}, true
		}
		return nil, false
	case *FuncChoice:
		n := &FuncChoice{}
		for _, a := range x.Alts {
			n.Alts = append(n.Alts, FuncAlt{And(c, a.Cond), a.F})
		}
		switch y := b.(type) {
		case *FuncV:
			n.Alts = append(n.Alts, FuncAlt{Not(c), y})
			return n, true
		case *FuncChoice:
			for _, a := range y.Alts {
				n.Alts = append(n.Alts, FuncAlt{And(Not(c), a.Cond), a.F})
			}
			return n, true
		case *Term:
			if y.IsConst && y.Sort.Kind == SInt && y.Int.Sign() == 0 {
				return n, true
			}
		}
		return nil, false
	}
	if at, ok := a.(*Term); ok && at.IsConst {
		_ = at
	}
	return nil, false
}

func sameVal(a, b Val) bool {
	if a == b {
		return true
	}
	switch x := a.(type) {
	case *SliceV:
		y, ok := b.(*SliceV)
		return ok && x.Arr == y.Arr && x.Off == y.Off && x.Len == y.Len && x.Cap == y.Cap
	case *IfaceV:
		y, ok := b.(*IfaceV)
		return ok && x.Tag == y.Tag && x.Data == y.Data
	case *StructV:
		y, ok := b.(*StructV)
		if !ok || len(x.F) != len(y.F) {
			return false
		}
		for i := range x.F {
			if !sameVal(x.F[i], y.F[i]) {
				return false
			}
		}
		return true
	case *ArrV:
		y, ok := b.(*ArrV)
		return ok && x.A == y.A
	case *PtrV:
		y, ok := b.(*PtrV)
		if !ok || x.Kind != y.Kind || x.Key != y.Key || x.Cell != y.Cell || x.Base != y.Base || x.Idx != y.Idx || len(x.Path) != len(y.Path) {
			return false
		}
		for i := range x.Path {
			if x.Path[i] != y.Path[i] {
				return false
			}
		}
		return true
	case *TupleV:
		y, ok := b.(*TupleV)
		if !ok || len(x.Vs) != len(y.Vs) {
			return false
		}
		for i := range x.Vs {
			if !sameVal(x.Vs[i], y.Vs[i]) {
				return false
			}
		}
		return true
	}
	return false
}


// funcFromTerm maps a loaded function-typed term back to the function value(s) it can denote.
func (vc *VC) funcFromTerm(t *Term) Val {
	if f, ok := vc.funcTerms[t]; ok {
		return f
	}
	if t.Op == "ite" && len(t.Args) == 3 {
		a := vc.funcFromTerm(t.Args[1])
		b := vc.funcFromTerm(t.Args[2])
		if a == nil && b == nil {
			return nil
		}
		// alternatives that are not recognised are left out: calling the choice treats "no alternative applies"
		// as a call of an unknown function (everything havocked) under that condition
		n := &FuncChoice{}
		add := func(cond *Term, v Val) {
			switch x := v.(type) {
			case *FuncV:
				n.Alts = append(n.Alts, FuncAlt{cond, x})
			case *FuncChoice:
				for _, al := range x.Alts {
					n.Alts = append(n.Alts, FuncAlt{And(cond, al.Cond), al.F})
				}
			}
		}
		if a != nil {
			add(t.Args[0], a)
		}
		if b != nil {
			add(Not(t.Args[0]), b)
		}
		return n
	}
	return nil
}

// isRefLike: scalar-sorted types whose values are references (pointers, maps, channels, functions).
func isRefLike(t types.Type) bool {
	switch under(t).(type) {
	case *types.Pointer, *types.Map, *types.Chan, *types.Signature, *types.Interface, *types.Slice:
		return true
	}
	return false
}

// monotoneCounters: ghost counters that the program only ever increments (every send, every message handed to a
// session): whatever unknown code ran, their value did not decrease.
var monotoneCounters = map[string]bool{"ghost:sentTotal": true, "ghost:outTotal": true, "ghost:idLookups": true, "ghost:doneCalls": true, "ghost:spawnedTotal": true}

func (st *State) monotone(name string, before *Term) {
	if monotoneCounters[name] && before != nil && before.Sort.Kind == SInt {
		st.vc.assume(st, Ge(st.heap[name], before))
	}
}
