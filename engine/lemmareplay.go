package main

// Replay of failed lemmas: the model values of the lemma's variables are written into a Go test that
// evaluates the lemma body (compiled from the spec expression to Go) against the real functions.

import (
	"fmt"
	"go/types"
	"math/big"
	"path/filepath"
	"strconv"
	"strings"
)

type goCompiler struct {
	prog  *Prog
	depth int
	err   error
}

func (c *goCompiler) fail(msg string) string {
	if c.err == nil {
		c.err = fmt.Errorf("%s", msg)
	}
	return "false"
}

// substSX replaces identifiers by expressions (used to inline spec functions).
func substSX(x *SX, m map[string]*SX) *SX {
	if x == nil {
		return nil
	}
	if x.K == "id" {
		if r, ok := m[x.Name]; ok {
			return r
		}
		return x
	}
	n := *x
	n.A = make([]*SX, len(x.A))
	inner := m
	if x.K == "quant" {
		inner = map[string]*SX{}
		for k, v := range m {
			inner[k] = v
		}
		for _, b := range x.Binders {
			delete(inner, b.Name)
		}
	}
	for i, a := range x.A {
		n.A[i] = substSX(a, inner)
	}
	return &n
}

func conjuncts(x *SX) []*SX {
	if x.K == "bin" && x.Op == "&&" {
		return append(conjuncts(x.A[0]), conjuncts(x.A[1])...)
	}
	return []*SX{x}
}

func (c *goCompiler) compile(x *SX) string {
	switch x.K {
	case "id":
		return x.Name
	case "int":
		return x.Val.String()
	case "char":
		return strconv.QuoteRune(rune(x.Val.Int64()))
	case "str":
		return strconv.Quote(x.Str)
	case "bool":
		return x.Name
	case "un":
		return "(" + x.Op + c.compile(x.A[0]) + ")"
	case "bin":
		a, b := c.compile(x.A[0]), c.compile(x.A[1])
		switch x.Op {
		case "==>":
			return "(!(" + a + ") || (" + b + "))"
		case "<==>":
			return "((" + a + ") == (" + b + "))"
		}
		return "(" + a + " " + x.Op + " " + b + ")"
	case "sel":
		if x.A[0].K == "call" && len(x.Name) >= 2 && x.Name[0] == 'r' && x.Name[1] >= '0' && x.Name[1] <= '9' {
			// component of a multi-valued result
			n := int(x.Name[1] - '0')
			blanks := []string{"_", "_", "_", "_"}
			var ps []string
			for i := 0; i <= 3; i++ {
				if i == n {
					ps = append(ps, "v")
				} else {
					ps = append(ps, blanks[i])
				}
			}
			return c.fail("tuple component in lemma replay")
		}
		return c.compile(x.A[0]) + "." + x.Name
	case "idx":
		return c.compile(x.A[0]) + "[" + c.compile(x.A[1]) + "]"
	case "slice":
		lo, hi := "", ""
		if x.A[1] != nil {
			lo = c.compile(x.A[1])
		}
		if x.A[2] != nil {
			hi = c.compile(x.A[2])
		}
		return c.compile(x.A[0]) + "[" + lo + ":" + hi + "]"
	case "call":
		if x.A[0].K == "id" {
			if sf, ok := c.prog.CS.SpecFuncs[x.A[0].Name]; ok {
				if sf.Body == nil || c.depth > 20 {
					return c.fail("uninterpreted or recursive spec function " + sf.Name)
				}
				m := map[string]*SX{}
				for i, p := range sf.Params {
					if i+1 < len(x.A) {
						m[p] = x.A[i+1]
					}
				}
				c.depth++
				r := "(" + c.compile(substSX(sf.Body, m)) + ")"
				c.depth--
				return r
			}
			if x.A[0].Name == "old" {
				return c.fail("old() in a lemma")
			}
		}
		var as []string
		for _, a := range x.A[1:] {
			as = append(as, c.compile(a))
		}
		return c.compile(x.A[0]) + "(" + strings.Join(as, ", ") + ")"
	case "cond":
		return c.fail("conditional expression")
	case "quant":
		if len(x.Binders) != 1 || x.Binders[0].Type != "int" {
			return c.fail("quantifier over a non-int variable")
		}
		v := x.Binders[0].Name
		body := x.A[0]
		var guard, rest *SX
		if x.Op == "forall" {
			if body.K != "bin" || body.Op != "==>" {
				return c.fail("forall without range guard")
			}
			guard, rest = body.A[0], body.A[1]
		} else {
			guard, rest = body, nil
		}
		lo, hi := "", ""
		var others []string
		for _, g := range conjuncts(guard) {
			if g.K == "bin" && g.A[1].K == "id" && g.A[1].Name == v && g.Op == "<=" && lo == "" {
				lo = c.compile(g.A[0])
				continue
			}
			if g.K == "bin" && g.A[0].K == "id" && g.A[0].Name == v && (g.Op == "<" || g.Op == "<=") && hi == "" {
				hi = c.compile(g.A[1])
				if g.Op == "<=" {
					hi = "(" + hi + ")+1"
				}
				continue
			}
			others = append(others, c.compile(g))
		}
		if lo == "" || hi == "" {
			return c.fail("quantifier range not recognised")
		}
		cond := "true"
		if len(others) > 0 {
			cond = strings.Join(others, " && ")
		}
		if x.Op == "forall" {
			return fmt.Sprintf("func() bool { for %s := int(%s); %s < int(%s); %s++ { if (%s) && !(%s) { return false } }; return true }()", v, lo, v, hi, v, cond, c.compile(rest))
		}
		return fmt.Sprintf("func() bool { for %s := int(%s); %s < int(%s); %s++ { if %s { return true } }; return false }()", v, lo, v, hi, v, cond)
	}
	return c.fail("unsupported expression " + x.K)
}

func tryReplayLemma(prog *Prog, fr *FuncResult, o *Obligation, timeoutS int) (string, map[string]any) {
	if fr.Lemma == nil || fr.LemmaBody == nil {
		return "", nil
	}
	pkgPath := pkgDirToPath(fr.Lemma.Pkg)
	tp := prog.TypesPkg[pkgPath]
	if tp == nil {
		return "", nil
	}
	noq := func(p *types.Package) string {
		if p == tp {
			return ""
		}
		return p.Name()
	}
	// model of the lemma variables
	var terms []*Term
	var small []*Term
	for _, lv := range fr.LemmaVars {
		switch x := lv.V.V.(type) {
		case *Term:
			if x.Sort == StrSort {
				terms = append(terms, StrLen(x))
				small = append(small, Le(StrLen(x), IntC(24)))
				for i := 0; i < 24; i++ {
					terms = append(terms, StrAt(x, IntC(int64(i))))
				}
			} else {
				terms = append(terms, x)
			}
		case *SeqV:
			terms = append(terms, x.Len)
			small = append(small, Le(x.Len, IntC(24)))
			for i := 0; i < 24; i++ {
				terms = append(terms, Select(x.A, IntC(int64(i))))
			}
		}
	}
	dir := replayWorkDir()
	asserts := append(obligationAsserts(fr, o), small...)
	vals, ok := getValues(asserts, terms, filepath.Join(dir, fileSafe(o.Name)+"_model.smt2"), timeoutS)
	if !ok {
		return "", map[string]any{"replay_note": "no small model of the lemma variables was found"}
	}
	var sb strings.Builder
	fmt.Fprintf(&sb, "package %s\n\nimport (\n\t\"fmt\"\n\t\"testing\"\n)\n\nfunc TestVerifReplay(t *testing.T) {\n", tp.Name())
	desc := map[string]any{}
	k := 0
	lit := func(t types.Type, v *big.Int) string {
		if isBool(t) {
			if v.Sign() != 0 {
				return "true"
			}
			return "false"
		}
		return types.TypeString(t, noq) + "(" + v.String() + ")"
	}
	for _, lv := range fr.LemmaVars {
		ts := types.TypeString(lv.T, noq)
		switch x := lv.V.V.(type) {
		case *Term:
			if x.Sort == StrSort {
				n := vals[k].Int64()
				k++
				var bs []string
				raw := make([]byte, 0)
				for i := int64(0); i < 24; i++ {
					if i < n {
						bs = append(bs, vals[k].String())
						raw = append(raw, byte(vals[k].Int64()))
					}
					k++
				}
				fmt.Fprintf(&sb, "\tvar %s %s = %s(string([]byte{%s}))\n", lv.Name, ts, ts, strings.Join(bs, ", "))
				desc[lv.Name] = strconv.Quote(string(raw))
			} else {
				fmt.Fprintf(&sb, "\tvar %s %s = %s\n", lv.Name, ts, lit(lv.T, vals[k]))
				desc[lv.Name] = vals[k].String()
				k++
			}
		case *SeqV:
			n := vals[k].Int64()
			k++
			var bs []string
			for i := int64(0); i < 24; i++ {
				if i < n {
					bs = append(bs, vals[k].String())
				}
				k++
			}
			fmt.Fprintf(&sb, "\tvar %s %s = %s{%s}\n", lv.Name, ts, ts, strings.Join(bs, ", "))
			desc[lv.Name] = "[" + strings.Join(bs, " ") + "]"
		}
		fmt.Fprintf(&sb, "\t_ = %s\n", lv.Name)
	}
	gc := &goCompiler{prog: prog}
	code := gc.compile(fr.LemmaBody)
	if gc.err != nil {
		return "", map[string]any{"replay_note": "lemma body cannot be compiled to Go: " + gc.err.Error(), "inputs": desc}
	}
	fmt.Fprintf(&sb, "\tholds := %s\n\tfmt.Println(\"VERIF-REPLAY holds=\", holds)\n\tif !holds {\n\t\tt.Fatalf(\"lemma %s fails on this input\")\n\t}\n}\n", code, fr.Lemma.Name)
	src := sb.String()
	pkgDir := strings.TrimPrefix(pkgPath, repoModule+"/")
	out, failed := runGoTest(pkgDir, src, "TestVerifReplay", "verif")
	extra := map[string]any{"go_test": src, "package_dir": pkgDir, "test_name": "TestVerifReplay", "build_tags": "verif", "inputs": desc, "real_output": lastLines(out, 6)}
	if strings.Contains(out, "VERIF-REPLAY holds= false") {
		return "reproduced", extra
	}
	if failed && strings.Contains(out, "panic:") {
		extra["replay_note"] = "evaluating the lemma instance on the real code panicked"
		return "reproduced", extra
	}
	extra["replay_note"] = "the lemma instance holds on the real code for the model values (model is an artefact of an abstraction)"
	return "", extra
}
