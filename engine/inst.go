package main

// Engine-side skolemisation and ground instantiation (DESIGN.md 4.2).
//
// Every quantified subformula is given a definitional Boolean name N (N stands for the truth value
// of the quantified formula). For a universal  N => body[c]  is added for finitely many ground terms c
// and  not N => not body[sk]  for a fresh constant sk; dually for existentials. All added formulas are
// valid under the definitional reading, so the result is implied by the original assertions (only
// completeness is lost): `unsat` of the ground query implies `unsat` of the original; `sat` means nothing.

import (
	"fmt"
	"os"
	"sort"
)

type qrec struct {
	q       *Term
	name    *Term
	needUni bool // instances wanted (forall used positively / exists used negatively)
	skDone  bool
	done    map[string]bool
}

type instantiator struct {
	q       map[*Term]*qrec
	order   []*qrec
	memo    map[[2]int]*Term
	extra   []*Term
	maxInst int
	nInst   int
}

var hqMemo = map[int]bool{}

func hasQuantTerm(t *Term) bool {
	if v, ok := hqMemo[t.ID]; ok {
		return v
	}
	r := t.Op == "forall" || t.Op == "exists"
	if !r {
		for _, a := range t.Args {
			if hasQuantTerm(a) {
				r = true
				break
			}
		}
	}
	hqMemo[t.ID] = r
	return r
}

// sk replaces quantified subformulas by their names. pol: +1 positive, -1 negative, 0 both.
func (in *instantiator) sk(t *Term, pol int) *Term {
	if t.Sort.Kind != SBool || !hasQuantTerm(t) {
		return t
	}
	key := [2]int{t.ID, pol}
	if r, ok := in.memo[key]; ok {
		return r
	}
	var r *Term
	switch {
	case t.Op == "not":
		r = Not(in.sk(t.Args[0], -pol))
	case t.Op == "and":
		var as []*Term
		for _, a := range t.Args {
			as = append(as, in.sk(a, pol))
		}
		r = And(as...)
	case t.Op == "or":
		var as []*Term
		for _, a := range t.Args {
			as = append(as, in.sk(a, pol))
		}
		r = Or(as...)
	case t.Op == "=>":
		r = Implies(in.sk(t.Args[0], -pol), in.sk(t.Args[1], pol))
	case t.Op == "ite":
		r = Ite(in.sk(t.Args[0], 0), in.sk(t.Args[1], pol), in.sk(t.Args[2], pol))
	case t.Op == "=":
		r = Eq(in.sk(t.Args[0], 0), in.sk(t.Args[1], 0))
	case t.Op == "forall" || t.Op == "exists":
		rec := in.q[t]
		if rec == nil {
			rec = &qrec{q: t, name: Fresh("Q", BoolSort), done: map[string]bool{}}
			in.q[t] = rec
			in.order = append(in.order, rec)
		}
		isAll := t.Op == "forall"
		wantUni := (isAll && pol >= 0) || (!isAll && pol <= 0)
		wantSk := (isAll && pol <= 0) || (!isAll && pol >= 0)
		if wantUni {
			rec.needUni = true
		}
		if wantSk && !rec.skDone {
			rec.skDone = true
			m := map[*Term]*Term{}
			for i := 0; i < t.NBind; i++ {
				m[t.Args[i]] = Fresh("sk."+t.Args[i].Op, t.Args[i].Sort)
			}
			body := Subst(t.Args[t.NBind], m)
			if isAll {
				// not N => not body[sk]
				in.extra = append(in.extra, Implies(Not(rec.name), in.sk(Not(body), 1)))
			} else {
				// N => body[sk]
				in.extra = append(in.extra, Implies(rec.name, in.sk(body, 1)))
			}
		}
		r = rec.name
	default:
		r = t
	}
	in.memo[key] = r
	return r
}

// candidates collects ground index-like terms per sort.
func candidates(roots []*Term, limit int) map[*Sort][]*Term {
	out := map[*Sort][]*Term{}
	seenT := map[int]bool{}
	have := map[int]bool{}
	bound := map[int]bool{}
	var hasBound func(t *Term) bool
	hasBound = func(t *Term) bool {
		if v, ok := bound[t.ID]; ok {
			return v
		}
		r := t.IsBound
		for _, a := range t.Args {
			if hasBound(a) {
				r = true
			}
		}
		bound[t.ID] = r
		return r
	}
	add := func(t *Term) {
		if have[t.ID] || hasBound(t) {
			return
		}
		if t.Sort.Kind == SArray || t.Sort.Kind == SBool {
			return
		}
		have[t.ID] = true
		out[t.Sort] = append(out[t.Sort], t)
	}
	var rec func(t *Term)
	rec = func(t *Term) {
		if seenT[t.ID] {
			return
		}
		seenT[t.ID] = true
		switch {
		case t.Op == "select":
			add(t.Args[1])
		case t.Op == "store":
			add(t.Args[1])
		case t.IsApp:
			for _, a := range t.Args {
				add(a)
			}
		case t.IsVar && len(t.Op) > 3 && t.Op[:3] == "sk.":
			add(t)
		}
		if t.Op == "forall" || t.Op == "exists" {
			return
		}
		for _, a := range t.Args {
			rec(a)
		}
	}
	for _, r := range roots {
		rec(r)
	}
	isSk := func(t *Term) bool { return t.IsVar && len(t.Op) > 3 && t.Op[:3] == "sk." }
	for s, ts := range out {
		sort.SliceStable(ts, func(i, j int) bool {
			si, sj := isSk(ts[i]), isSk(ts[j])
			if si != sj {
				return si
			}
			if gi, gj := goalTerms[ts[i].ID], goalTerms[ts[j].ID]; gi != gj {
				return gi
			}
			// string literals (log texts mostly) after the strings the code computes with
			if li, lj := isLit(ts[i]), isLit(ts[j]); li != lj {
				return !li
			}
			return termWeight(ts[i]) < termWeight(ts[j])
		})
		nsk := 0
		for _, t := range ts {
			if isSk(t) {
				nsk++
			}
		}
		if len(ts) > limit+nsk {
			ts = ts[:limit+nsk]
		}
		out[s] = ts
	}
	return out
}

func termWeight(t *Term) int {
	n := 1
	for _, a := range t.Args {
		n += termWeight(a)
		if n > 50 {
			return n
		}
	}
	return n
}

// ---- linear arithmetic helpers for matching index patterns ----

type linForm struct {
	coef  map[*Term]int64
	atoms []*Term
	c     int64
	ok    bool
}

func linOf(t *Term) linForm {
	lf := linForm{coef: map[*Term]int64{}, ok: true}
	var rec func(t *Term, k int64)
	rec = func(t *Term, k int64) {
		switch {
		case t.IsConst && t.Sort.Kind == SInt:
			if !t.Int.IsInt64() {
				lf.ok = false
				return
			}
			lf.c += k * t.Int.Int64()
		case t.Op == "+" && !t.IsVar && !t.IsApp:
			for _, a := range t.Args {
				rec(a, k)
			}
		case t.Op == "-" && len(t.Args) == 2 && !t.IsVar && !t.IsApp:
			rec(t.Args[0], k)
			rec(t.Args[1], -k)
		case t.Op == "-" && len(t.Args) == 1 && !t.IsVar && !t.IsApp:
			rec(t.Args[0], -k)
		default:
			if _, ok := lf.coef[t]; !ok {
				lf.atoms = append(lf.atoms, t)
			}
			lf.coef[t] += k
		}
	}
	rec(t, 1)
	return lf
}

// linBuild rebuilds a term from a linear form.
func linBuild(lf linForm) *Term {
	var r *Term
	for _, a := range lf.atoms {
		k := lf.coef[a]
		if k == 0 {
			continue
		}
		var part *Term
		switch {
		case k == 1:
			part = a
		case k == -1:
			part = Neg(a)
		default:
			part = Mul(IntC(k), a)
		}
		if r == nil {
			r = part
		} else if k == -1 {
			r = Sub(r, a)
		} else {
			r = Add(r, part)
		}
	}
	if r == nil {
		return IntC(lf.c)
	}
	if lf.c != 0 {
		r = Add(r, IntC(lf.c))
	}
	return r
}

// solveFor returns x such that pattern(x) == g, for patterns linear in x with coefficient 1.
func solveFor(pattern, x, g *Term) *Term {
	lp := linOf(pattern)
	if !lp.ok || lp.coef[x] != 1 {
		return nil
	}
	lg := linOf(g)
	if !lg.ok {
		return nil
	}
	// x = g - (pattern - x)
	res := linForm{coef: map[*Term]int64{}, ok: true, c: lg.c - lp.c}
	for _, a := range lg.atoms {
		res.coef[a] += lg.coef[a]
		res.atoms = append(res.atoms, a)
	}
	for _, a := range lp.atoms {
		if a == x {
			continue
		}
		if _, ok := res.coef[a]; !ok {
			res.atoms = append(res.atoms, a)
		}
		res.coef[a] -= lp.coef[a]
	}
	n := 0
	for _, a := range res.atoms {
		if res.coef[a] != 0 {
			n++
		}
	}
	if n > 3 {
		return nil
	}
	return linBuild(res)
}

// indexPatterns finds index positions in body whose only bound variable is x.
type idxPat struct {
	idx  *Term
	asrt *Sort
}

func indexPatterns(body, x *Term) []idxPat {
	var out []idxPat
	seen := map[int]bool{}
	var onlyX func(t *Term) (hasX bool, other bool)
	onlyX = func(t *Term) (bool, bool) {
		if t == x {
			return true, false
		}
		if t.IsBound {
			return false, true
		}
		hx, ot := false, false
		for _, a := range t.Args {
			h, o := onlyX(a)
			hx = hx || h
			ot = ot || o
		}
		return hx, ot
	}
	var rec func(t *Term)
	rec = func(t *Term) {
		if seen[t.ID] {
			return
		}
		seen[t.ID] = true
		if (t.Op == "select" || t.Op == "store") && t.Args[1].Sort.Kind == SInt {
			if h, o := onlyX(t.Args[1]); h && !o {
				out = append(out, idxPat{t.Args[1], t.Args[0].Sort})
			}
		}
		for _, a := range t.Args {
			rec(a)
		}
	}
	rec(body)
	return out
}

// groundIndexTerms collects the Int-sorted index arguments of selects/stores in ground position.
func groundIndexTerms(roots []*Term, limit int) map[*Sort][]*Term {
	out := map[*Sort][]*Term{}
	seen := map[int]bool{}
	have := map[int]bool{}
	var hasBoundVar func(t *Term) bool
	bmemo := map[int]bool{}
	hasBoundVar = func(t *Term) bool {
		if v, ok := bmemo[t.ID]; ok {
			return v
		}
		r := t.IsBound
		for _, a := range t.Args {
			if hasBoundVar(a) {
				r = true
			}
		}
		bmemo[t.ID] = r
		return r
	}
	var rec func(t *Term)
	rec = func(t *Term) {
		if seen[t.ID] {
			return
		}
		seen[t.ID] = true
		if t.Op == "forall" || t.Op == "exists" {
			return
		}
		if (t.Op == "select" || t.Op == "store") && t.Args[1].Sort.Kind == SInt && !hasBoundVar(t.Args[1]) {
			k := t.Args[1].ID*7919 + len(t.Args[0].Sort.String())
			if !have[k] {
				have[k] = true
				out[t.Args[0].Sort] = append(out[t.Args[0].Sort], t.Args[1])
			}
		}
		for _, a := range t.Args {
			rec(a)
		}
	}
	for _, r := range roots {
		rec(r)
	}
	for srt, ts := range out {
		// prefer terms that mention skolem constants or variables over bare numerals
		sort.SliceStable(ts, func(i, j int) bool {
			ci, cj := ts[i].IsConst, ts[j].IsConst
			if ci != cj {
				return !ci
			}
			if gi, gj := goalTerms[ts[i].ID], goalTerms[ts[j].ID]; gi != gj {
				return gi
			}
			return termWeight(ts[i]) < termWeight(ts[j])
		})
		if len(ts) > limit {
			ts = ts[:limit]
		}
		out[srt] = ts
	}
	return out
}

// Instantiate returns a quantifier-free weakening of the asserted formulas.
// goalTerms: ids of the terms occurring in the last assertions of the query being instantiated (the negated goal and
// the path condition next to it); candidate instances among them are preferred when the per-sort limits cut the lists.
var goalTerms = map[int]bool{}

func isLit(t *Term) bool { return len(t.Op) > 4 && t.Op[:4] == "lit:" }

func collectGoalTerms(asserts []*Term) {
	goalTerms = map[int]bool{}
	var rec func(t *Term)
	rec = func(t *Term) {
		if goalTerms[t.ID] {
			return
		}
		goalTerms[t.ID] = true
		for _, a := range t.Args {
			rec(a)
		}
	}
	for i := len(asserts) - 1; i >= 0 && i >= len(asserts)-8; i-- {
		rec(asserts[i])
	}
}

func Instantiate(asserts []*Term, rounds int) []*Term {
	collectGoalTerms(asserts)
	in := &instantiator{q: map[*Term]*qrec{}, memo: map[[2]int]*Term{}, maxInst: 6000}
	var ground []*Term
	for _, a := range asserts {
		ground = append(ground, in.sk(a, 1))
	}
	flush := func() {
		for len(in.extra) > 0 {
			ex := in.extra
			in.extra = nil
			ground = append(ground, ex...)
		}
	}
	flush()
	for r := 0; r < rounds; r++ {
		cands := candidates(ground, 20)
		gidx := groundIndexTerms(ground, 40)
		progress := false
		n := len(in.order)
		for ui := 0; ui < n; ui++ {
			u := in.order[ui]
			if !u.needUni {
				continue
			}
			nb := u.q.NBind
			// several bound variables: instantiate one that occurs alone in an index position and leave the rest
			// quantified (the partially instantiated formula is picked up again in the next round)
			if nb >= 2 && u.q.Op == "forall" {
				done := false
				for i := 0; i < nb && !done; i++ {
					x := u.q.Args[i]
					if x.Sort.Kind != SInt {
						continue
					}
					pats := indexPatterns(u.q.Args[nb], x)
					if len(pats) == 0 {
						continue
					}
					var rest []*Term
					for j := 0; j < nb; j++ {
						if j != i {
							rest = append(rest, u.q.Args[j])
						}
					}
					have := map[int]bool{}
					n := 0
					for _, p := range pats {
						for _, g := range gidx[p.asrt] {
							cand := solveFor(p.idx, x, g)
							if cand == nil || have[cand.ID] || n >= 16 || in.nInst >= in.maxInst {
								continue
							}
							have[cand.ID] = true
							key := "partial," + itoa(i) + "," + itoa(cand.ID)
							if u.done[key] {
								continue
							}
							u.done[key] = true
							n++
							inst := Forall(rest, Subst(u.q.Args[nb], map[*Term]*Term{x: cand}))
							ground = append(ground, Implies(u.name, in.sk(inst, 1)))
							in.nInst++
							progress = true
						}
					}
					done = true
				}
				if done {
					continue
				}
			}
			var lists [][]*Term
			ok := true
			for i := 0; i < nb; i++ {
				x := u.q.Args[i]
				var c []*Term
				if x.Sort.Kind == SInt {
					if pats := indexPatterns(u.q.Args[nb], x); len(pats) > 0 {
						have := map[int]bool{}
						for _, p := range pats {
							for _, g := range gidx[p.asrt] {
								if cand := solveFor(p.idx, x, g); cand != nil && !have[cand.ID] {
									have[cand.ID] = true
									c = append(c, cand)
								}
							}
						}
						for _, sk := range cands[x.Sort] {
							if sk.IsVar && len(sk.Op) > 3 && sk.Op[:3] == "sk." && !have[sk.ID] {
								have[sk.ID] = true
								c = append(c, sk)
							}
						}
						if len(c) > 40 {
							c = c[:40]
						}
					}
				}
				if c == nil {
					c = cands[x.Sort]
				}
				if len(c) == 0 {
					ok = false
					break
				}
				if nb >= 2 && len(c) > 14 {
					c = c[:14]
				}
				if nb >= 3 && len(c) > 6 {
					c = c[:6]
				}
				lists = append(lists, c)
			}
			if !ok {
				continue
			}
			idx := make([]int, nb)
			for {
				if in.nInst >= in.maxInst {
					break
				}
				key := ""
				m := map[*Term]*Term{}
				for i := 0; i < nb; i++ {
					m[u.q.Args[i]] = lists[i][idx[i]]
					key += "," + itoa(lists[i][idx[i]].ID)
				}
				if !u.done[key] {
					u.done[key] = true
					inst := Subst(u.q.Args[nb], m)
					if u.q.Op == "forall" {
						ground = append(ground, Implies(u.name, in.sk(inst, 1)))
					} else {
						ground = append(ground, Implies(Not(u.name), in.sk(Not(inst), 1)))
					}
					in.nInst++
					progress = true
				}
				k := nb - 1
				for k >= 0 {
					idx[k]++
					if idx[k] < len(lists[k]) {
						break
					}
					idx[k] = 0
					k--
				}
				if k < 0 {
					break
				}
			}
		}
		flush()
		if os.Getenv("VCGEN_DEBUG_INST") != "" {
			fmt.Fprintf(os.Stderr, "inst round %d: %d quantifiers, %d instances, %d index sorts, pools:", r, len(in.order), in.nInst, len(gidx))
			for s, c := range cands {
				fmt.Fprintf(os.Stderr, " %s=%d", s, len(c))
			}
			fmt.Fprintln(os.Stderr)
			for _, u := range in.order {
				if u.needUni {
					fmt.Fprintf(os.Stderr, "   %s nb=%d inst=%d\n", u.name.Op, u.q.NBind, len(u.done))
				}
			}
		}
		if !progress {
			break
		}
	}
	return ground
}
