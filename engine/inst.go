package main

// Engine-side skolemisation and ground instantiation (DESIGN.md 4.2).
//
// Every quantified subformula is given a definitional Boolean name N (N stands for the truth value
// of the quantified formula). For a universal  N => body[c]  is added for finitely many ground terms c
// and  not N => not body[sk]  for a fresh constant sk; dually for existentials. All added formulas are
// valid under the definitional reading, so the result is implied by the original assertions (only
// completeness is lost): `unsat` of the ground query implies `unsat` of the original; `sat` means nothing.

import (
	"sort"
)

type qrec struct {
	q       *Term
	name    *Term
	needUni bool // instances wanted (forall used positively / exists used negatively)
	skDone  bool
	done    map[string]bool
}

type instantiator struct {
	q       map[*Term]*qrec
	order   []*qrec
	memo    map[[2]int]*Term
	extra   []*Term
	maxInst int
	nInst   int
}

var hqMemo = map[int]bool{}

func hasQuantTerm(t *Term) bool {
	if v, ok := hqMemo[t.ID]; ok {
		return v
	}
	r := t.Op == "forall" || t.Op == "exists"
	if !r {
		for _, a := range t.Args {
			if hasQuantTerm(a) {
				r = true
				break
			}
		}
	}
	hqMemo[t.ID] = r
	return r
}

// sk replaces quantified subformulas by their names. pol: +1 positive, -1 negative, 0 both.
func (in *instantiator) sk(t *Term, pol int) *Term {
	if t.Sort.Kind != SBool || !hasQuantTerm(t) {
		return t
	}
	key := [2]int{t.ID, pol}
	if r, ok := in.memo[key]; ok {
		return r
	}
	var r *Term
	switch {
	case t.Op == "not":
		r = Not(in.sk(t.Args[0], -pol))
	case t.Op == "and":
		var as []*Term
		for _, a := range t.Args {
			as = append(as, in.sk(a, pol))
		}
		r = And(as...)
	case t.Op == "or":
		var as []*Term
		for _, a := range t.Args {
			as = append(as, in.sk(a, pol))
		}
		r = Or(as...)
	case t.Op == "=>":
		r = Implies(in.sk(t.Args[0], -pol), in.sk(t.Args[1], pol))
	case t.Op == "ite":
		r = Ite(in.sk(t.Args[0], 0), in.sk(t.Args[1], pol), in.sk(t.Args[2], pol))
	case t.Op == "=":
		r = Eq(in.sk(t.Args[0], 0), in.sk(t.Args[1], 0))
	case t.Op == "forall" || t.Op == "exists":
		rec := in.q[t]
		if rec == nil {
			rec = &qrec{q: t, name: Fresh("Q", BoolSort), done: map[string]bool{}}
			in.q[t] = rec
			in.order = append(in.order, rec)
		}
		isAll := t.Op == "forall"
		wantUni := (isAll && pol >= 0) || (!isAll && pol <= 0)
		wantSk := (isAll && pol <= 0) || (!isAll && pol >= 0)
		if wantUni {
			rec.needUni = true
		}
		if wantSk && !rec.skDone {
			rec.skDone = true
			m := map[*Term]*Term{}
			for i := 0; i < t.NBind; i++ {
				m[t.Args[i]] = Fresh("sk."+t.Args[i].Op, t.Args[i].Sort)
			}
			body := Subst(t.Args[t.NBind], m)
			if isAll {
				// not N => not body[sk]
				in.extra = append(in.extra, Implies(Not(rec.name), in.sk(Not(body), 1)))
			} else {
				// N => body[sk]
				in.extra = append(in.extra, Implies(rec.name, in.sk(body, 1)))
			}
		}
		r = rec.name
	default:
		r = t
	}
	in.memo[key] = r
	return r
}

// candidates collects ground index-like terms per sort.
func candidates(roots []*Term, limit int) map[*Sort][]*Term {
	out := map[*Sort][]*Term{}
	seenT := map[int]bool{}
	have := map[int]bool{}
	bound := map[int]bool{}
	var hasBound func(t *Term) bool
	hasBound = func(t *Term) bool {
		if v, ok := bound[t.ID]; ok {
			return v
		}
		r := t.IsBound
		for _, a := range t.Args {
			if hasBound(a) {
				r = true
			}
		}
		bound[t.ID] = r
		return r
	}
	add := func(t *Term) {
		if have[t.ID] || hasBound(t) {
			return
		}
		if t.Sort.Kind == SArray || t.Sort.Kind == SBool {
			return
		}
		have[t.ID] = true
		out[t.Sort] = append(out[t.Sort], t)
	}
	var rec func(t *Term)
	rec = func(t *Term) {
		if seenT[t.ID] {
			return
		}
		seenT[t.ID] = true
		switch {
		case t.Op == "select":
			add(t.Args[1])
		case t.Op == "store":
			add(t.Args[1])
		case t.IsApp:
			for _, a := range t.Args {
				add(a)
			}
		case t.IsVar && len(t.Op) > 3 && t.Op[:3] == "sk.":
			add(t)
		}
		if t.Op == "forall" || t.Op == "exists" {
			return
		}
		for _, a := range t.Args {
			rec(a)
		}
	}
	for _, r := range roots {
		rec(r)
	}
	for s, ts := range out {
		sort.SliceStable(ts, func(i, j int) bool { return termWeight(ts[i]) < termWeight(ts[j]) })
		if len(ts) > limit {
			ts = ts[:limit]
		}
		out[s] = ts
	}
	return out
}

func termWeight(t *Term) int {
	n := 1
	for _, a := range t.Args {
		n += termWeight(a)
		if n > 50 {
			return n
		}
	}
	return n
}

// Instantiate returns a quantifier-free weakening of the asserted formulas.
func Instantiate(asserts []*Term, rounds int) []*Term {
	in := &instantiator{q: map[*Term]*qrec{}, memo: map[[2]int]*Term{}, maxInst: 6000}
	var ground []*Term
	for _, a := range asserts {
		ground = append(ground, in.sk(a, 1))
	}
	flush := func() {
		for len(in.extra) > 0 {
			ex := in.extra
			in.extra = nil
			ground = append(ground, ex...)
		}
	}
	flush()
	for r := 0; r < rounds; r++ {
		cands := candidates(ground, 20)
		progress := false
		n := len(in.order)
		for ui := 0; ui < n; ui++ {
			u := in.order[ui]
			if !u.needUni {
				continue
			}
			nb := u.q.NBind
			var lists [][]*Term
			ok := true
			for i := 0; i < nb; i++ {
				c := cands[u.q.Args[i].Sort]
				if len(c) == 0 {
					ok = false
					break
				}
				lists = append(lists, c)
			}
			if !ok {
				continue
			}
			idx := make([]int, nb)
			for {
				if in.nInst >= in.maxInst {
					break
				}
				key := ""
				m := map[*Term]*Term{}
				for i := 0; i < nb; i++ {
					m[u.q.Args[i]] = lists[i][idx[i]]
					key += "," + itoa(lists[i][idx[i]].ID)
				}
				if !u.done[key] {
					u.done[key] = true
					inst := Subst(u.q.Args[nb], m)
					if u.q.Op == "forall" {
						ground = append(ground, Implies(u.name, in.sk(inst, 1)))
					} else {
						ground = append(ground, Implies(Not(u.name), in.sk(Not(inst), 1)))
					}
					in.nInst++
					progress = true
				}
				k := nb - 1
				for k >= 0 {
					idx[k]++
					if idx[k] < len(lists[k]) {
						break
					}
					idx[k] = 0
					k--
				}
				if k < 0 {
					break
				}
			}
		}
		flush()
		if !progress {
			break
		}
	}
	return ground
}
