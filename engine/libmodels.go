package main

// Executable-precision models of the few library functions the identifier codecs are built from:
// encoding/binary little-endian, encoding/base64 (URL alphabet, exact for the 8<->11 and 16<->22 sizes the
// Uid and p2p codecs use, uninterpreted otherwise), sync/atomic, strings.Replace on a literal prefix.
// They are part of the trusted base and are listed in the evidence of every property that uses them.

import (
	"fmt"
	"go/types"
	"math/big"

	"golang.org/x/tools/go/ssa"
)

func BVExtract(t *Term, hi, lo int) *Term {
	if t.IsConst {
		v := new(big.Int).Rsh(t.Int, uint(lo))
		return BVBig(v, hi-lo+1)
	}
	return P.intern(&Term{Op: fmt.Sprintf("(_ extract %d %d)", hi, lo), Args: []*Term{t}, Sort: BVSort(hi - lo + 1)})
}

func BVConcat(a, b *Term) *Term {
	if a.IsConst && b.IsConst {
		v := new(big.Int).Lsh(a.Int, uint(b.Sort.Width))
		v.Or(v, b.Int)
		return BVBig(v, a.Sort.Width+b.Sort.Width)
	}
	return P.intern(&Term{Op: "concat", Args: []*Term{a, b}, Sort: BVSort(a.Sort.Width + b.Sort.Width)})
}

func (vc *VC) byteContent(st *State) (*KeyInfo, *Term) {
	ki := vc.reg.get("elem<uint8>", 2, BVSort(8), IntSort)
	return ki, st.heapVar(ki)
}

// ---- base64 URL alphabet ----

func (vc *VC) byteContentIn(st *State) (*KeyInfo, *Term) {
	return vc.byteContent(st)
}

func b64val(c *Term) (ok *Term, v *Term) {
	c9 := BVResize(c, 8)
	in := func(lo, hi byte) *Term { return And(BVCmp("bvuge", c9, BVC(uint64(lo), 8)), BVCmp("bvule", c9, BVC(uint64(hi), 8))) }
	upper, lower, digit := in('A', 'Z'), in('a', 'z'), in('0', '9')
	dash, under := Eq(c9, BVC('-', 8)), Eq(c9, BVC('_', 8))
	ok = Or(upper, lower, digit, dash, under)
	v8 := Ite(upper, BVBin("bvsub", c9, BVC(65, 8)),
		Ite(lower, BVBin("bvsub", c9, BVC(71, 8)),
			Ite(digit, BVBin("bvadd", c9, BVC(4, 8)),
				Ite(dash, BVC(62, 8), BVC(63, 8)))))
	return ok, BVExtract(v8, 5, 0)
}

func b64chr(v *Term) *Term {
	v8 := BVResize(v, 8)
	return Ite(BVCmp("bvult", v8, BVC(26, 8)), BVBin("bvadd", v8, BVC(65, 8)),
		Ite(BVCmp("bvult", v8, BVC(52, 8)), BVBin("bvadd", v8, BVC(71, 8)),
			Ite(BVCmp("bvult", v8, BVC(62, 8)), BVBin("bvsub", v8, BVC(4, 8)),
				Ite(Eq(v8, BVC(62, 8)), BVC('-', 8), BVC('_', 8)))))
}

// b64decodeExact decodes nchars characters (11 or 22) read through at(i) into nbytes bytes.
func b64decodeExact(at func(i int) *Term, nchars, nbytes int, strict *Term) (ok *Term, bytes []*Term) {
	var oks []*Term
	var bits *Term
	for i := 0; i < nchars; i++ {
		o, v := b64val(at(i))
		oks = append(oks, o)
		if bits == nil {
			bits = v
		} else {
			bits = BVConcat(bits, v)
		}
	}
	total := nchars * 6
	for k := 0; k < nbytes; k++ {
		hi := total - 1 - 8*k
		bytes = append(bytes, BVExtract(bits, hi, hi-7))
	}
	spare := total - 8*nbytes
	if spare > 0 {
		tail := BVExtract(bits, spare-1, 0)
		oks = append(oks, Implies(strict, Eq(tail, BVC(0, spare))))
	}
	return And(oks...), bytes
}

func b64encodeExact(bytes []*Term) []*Term {
	var bits *Term
	for _, b := range bytes {
		if bits == nil {
			bits = b
		} else {
			bits = BVConcat(bits, b)
		}
	}
	total := 8 * len(bytes)
	nchars := (total + 5) / 6
	pad := nchars*6 - total
	if pad > 0 {
		bits = BVConcat(bits, BVC(0, pad))
	}
	var out []*Term
	for i := 0; i < nchars; i++ {
		hi := nchars*6 - 1 - 6*i
		out = append(out, b64chr(BVExtract(bits, hi, hi-5)))
	}
	return out
}

// encFields reads padChar and strict of an *Encoding.
func (vc *VC) encFields(st *State, enc Val) (noPad *Term, strict *Term) {
	p, ok := enc.(*PtrV)
	var base *Term
	if ok && p.Kind == PHeap {
		base = p.Base
	} else if t, ok := enc.(*Term); ok {
		base = t
	} else {
		return Fresh("nopad", BoolSort), Fresh("strict", BoolSort)
	}
	kp := vc.reg.get("encoding.base64.Encoding.padChar", 1, IntSort, nil)
	ks := vc.reg.get("encoding.base64.Encoding.strict", 1, BoolSort, nil)
	return Eq(Select(st.heapVar(kp), base), IntC(-1)), Select(st.heapVar(ks), base)
}

func (vc *VC) modelB64Decode(st *State, enc Val, dst *SliceV, srcAt func(i *Term) *Term, srcLen *Term) (n *Term, err *IfaceV) {
	noPad, strict := vc.encFields(st, enc)
	ki, h := vc.byteContent(st)
	old := Select(h, dst.Arr)
	okTag := Fresh("b64err", IntSort)
	vc.assume(st, Ge(okTag, IntC(0)))
	err = &IfaceV{Tag: okTag, Data: Fresh("b64errdata", IntSort)}
	n = Fresh("b64n", IntSort)
	generic := Fresh("b64dst", old.Sort)
	content := generic
	var conds []*Term
	for _, sz := range [][2]int{{11, 8}, {22, 16}} {
		nch, nby := sz[0], sz[1]
		is := And(noPad, Eq(srcLen, IntC(int64(nch))))
		ok, bytes := b64decodeExact(func(i int) *Term { return srcAt(IntC(int64(i))) }, nch, nby, strict)
		exact := old
		for k, b := range bytes {
			exact = Store(exact, Add(dst.Off, IntC(int64(k))), b)
		}
		vc.assume(st, Implies(And(is, ok), And(Eq(n, IntC(int64(nby))), Eq(okTag, IntC(0)))))
		vc.assume(st, Implies(And(is, Not(ok)), And(Not(Eq(okTag, IntC(0))), Ge(n, IntC(0)), Lt(n, IntC(int64(nby))))))
		content = Ite(And(is, ok), exact, content)
		conds = append(conds, is)
	}
	vc.assume(st, And(Ge(n, IntC(0)), Le(n, srcLen)))
	st.heap[ki.Name] = Store(h, dst.Arr, content)
	vc.noteWrite(st, PHeap, ki.Name, dst.Arr, nil)
	vc.used["encoding/base64: exact bit-level model of the URL alphabet for unpadded 11- and 22-character inputs (strict flag honoured); other sizes unconstrained"] = true
	return n, err
}

func (vc *VC) modelB64EncodeBytes(st *State, enc Val, src *SliceV) (chars func(n int) []*Term, noPad *Term) {
	noPad, _ = vc.encFields(st, enc)
	_, h := vc.byteContent(st)
	sc := Select(h, src.Arr)
	return func(n int) []*Term {
		var bs []*Term
		for i := 0; i < n; i++ {
			bs = append(bs, Select(sc, Add(src.Off, IntC(int64(i)))))
		}
		return b64encodeExact(bs)
	}, noPad
}

func init() {
	m := builtinModels
	m["(encoding/base64.Encoding).WithPadding"] = func(vc *VC, fx *FuncCtx, st *State, fn *ssa.Function, args []Val, rt types.Type, instr ssa.Instruction) Val {
		ref := vc.freshRef()
		et := rt.(*types.Pointer).Elem()
		sv, ok := args[0].(*StructV)
		if ok {
			n := &StructV{T: sv.T, F: append([]Val{}, sv.F...)}
			for i := 0; i < sv.T.NumFields(); i++ {
				if sv.T.Field(i).Name() == "padChar" {
					n.F[i] = args[1]
				}
			}
			st.storeKey(PHeap, typeKey(et), ref, nil, et, n)
		}
		return &PtrV{Kind: PHeap, Base: ref, Key: typeKey(et), Elem: et}
	}
	m["(encoding/base64.Encoding).Strict"] = func(vc *VC, fx *FuncCtx, st *State, fn *ssa.Function, args []Val, rt types.Type, instr ssa.Instruction) Val {
		ref := vc.freshRef()
		et := rt.(*types.Pointer).Elem()
		if sv, ok := args[0].(*StructV); ok {
			n := &StructV{T: sv.T, F: append([]Val{}, sv.F...)}
			for i := 0; i < sv.T.NumFields(); i++ {
				if sv.T.Field(i).Name() == "strict" {
					n.F[i] = True()
				}
			}
			st.storeKey(PHeap, typeKey(et), ref, nil, et, n)
		}
		return &PtrV{Kind: PHeap, Base: ref, Key: typeKey(et), Elem: et}
	}
	m["(*encoding/base64.Encoding).EncodedLen"] = func(vc *VC, fx *FuncCtx, st *State, fn *ssa.Function, args []Val, rt types.Type, instr ssa.Instruction) Val {
		noPad, _ := vc.encFields(st, args[0])
		n := args[1].(*Term)
		un := QuoGo(Add(Mul(n, IntC(8)), IntC(5)), IntC(6))
		pd := Mul(QuoGo(Add(n, IntC(2)), IntC(3)), IntC(4))
		return Ite(noPad, un, pd)
	}
	m["(*encoding/base64.Encoding).DecodedLen"] = func(vc *VC, fx *FuncCtx, st *State, fn *ssa.Function, args []Val, rt types.Type, instr ssa.Instruction) Val {
		noPad, _ := vc.encFields(st, args[0])
		n := args[1].(*Term)
		un := QuoGo(Mul(n, IntC(6)), IntC(8))
		pd := Mul(QuoGo(n, IntC(4)), IntC(3))
		return Ite(noPad, un, pd)
	}
	m["(*encoding/base64.Encoding).Decode"] = func(vc *VC, fx *FuncCtx, st *State, fn *ssa.Function, args []Val, rt types.Type, instr ssa.Instruction) Val {
		dst, ok1 := args[1].(*SliceV)
		src, ok2 := args[2].(*SliceV)
		if !ok1 || !ok2 {
			return vc.defaultCall(st, fn.String(), fn, args, rt, false)
		}
		_, h := vc.byteContent(st)
		sc := Select(h, src.Arr)
		n, err := vc.modelB64Decode(st, args[0], dst, func(i *Term) *Term { return Select(sc, Add(src.Off, i)) }, src.Len)
		return &TupleV{Vs: []Val{n, err}}
	}
	m["(*encoding/base64.Encoding).DecodeString"] = func(vc *VC, fx *FuncCtx, st *State, fn *ssa.Function, args []Val, rt types.Type, instr ssa.Instruction) Val {
		s, ok := args[1].(*Term)
		if !ok {
			return vc.defaultCall(st, fn.String(), fn, args, rt, false)
		}
		ref := vc.freshRef()
		vc.zeroArray(st, types.Typ[types.Uint8], ref)
		capv := Fresh("b64cap", IntSort)
		dst := &SliceV{ref, IntC(0), capv, capv}
		n, err := vc.modelB64Decode(st, args[0], dst, func(i *Term) *Term { return StrAt(s, i) }, StrLen(s))
		vc.assume(st, Ge(capv, n))
		return &TupleV{Vs: []Val{&SliceV{ref, IntC(0), n, capv}, err}}
	}
	encode := func(vc *VC, st *State, enc Val, src *SliceV) (exact func(n int) []*Term, noPad *Term) {
		return vc.modelB64EncodeBytes(st, enc, src)
	}
	m["(*encoding/base64.Encoding).Encode"] = func(vc *VC, fx *FuncCtx, st *State, fn *ssa.Function, args []Val, rt types.Type, instr ssa.Instruction) Val {
		dst, ok1 := args[1].(*SliceV)
		src, ok2 := args[2].(*SliceV)
		if !ok1 || !ok2 {
			return vc.defaultCall(st, fn.String(), fn, args, rt, false)
		}
		exact, noPad := encode(vc, st, args[0], src)
		ki, h := vc.byteContent(st)
		old := Select(h, dst.Arr)
		content := Fresh("b64enc", old.Sort)
		for _, sz := range []int{8, 16} {
			is := And(noPad, Eq(src.Len, IntC(int64(sz))))
			e := old
			for k, c := range exact(sz) {
				e = Store(e, Add(dst.Off, IntC(int64(k))), c)
			}
			content = Ite(is, e, content)
		}
		h = st.heapVar(ki)
		st.heap[ki.Name] = Store(h, dst.Arr, content)
		vc.noteWrite(st, PHeap, ki.Name, dst.Arr, nil)
		vc.used["encoding/base64: exact bit-level model of the URL alphabet for unpadded 8- and 16-byte inputs; other sizes unconstrained"] = true
		return nil
	}
	m["(*encoding/base64.Encoding).EncodeToString"] = func(vc *VC, fx *FuncCtx, st *State, fn *ssa.Function, args []Val, rt types.Type, instr ssa.Instruction) Val {
		src, ok := args[1].(*SliceV)
		if !ok {
			return vc.defaultCall(st, fn.String(), fn, args, rt, false)
		}
		exact, noPad := encode(vc, st, args[0], src)
		r := Fresh("b64str", StrSort)
		vc.assume(st, Ge(StrLen(r), IntC(0)))
		for _, sz := range []int{8, 16} {
			is := And(noPad, Eq(src.Len, IntC(int64(sz))))
			cs := exact(sz)
			facts := []*Term{Eq(StrLen(r), IntC(int64(len(cs))))}
			for k, c := range cs {
				facts = append(facts, Eq(StrAt(r, IntC(int64(k))), c))
			}
			vc.assume(st, Implies(is, And(facts...)))
		}
		vc.used["encoding/base64: exact bit-level model of the URL alphabet for unpadded 8- and 16-byte inputs; other sizes unconstrained"] = true
		return r
	}
	// ---- encoding/binary little endian ----
	put := func(nbytes int) modelFn {
		return func(vc *VC, fx *FuncCtx, st *State, fn *ssa.Function, args []Val, rt types.Type, instr ssa.Instruction) Val {
			b, ok := args[1].(*SliceV)
			v, ok2 := args[2].(*Term)
			if !ok || !ok2 {
				return vc.defaultCall(st, fn.String(), fn, args, rt, false)
			}
			vc.check(fx, st, Ge(b.Len, IntC(int64(nbytes))), "binary.LittleEndian.Put: short buffer", posOf(instr))
			ki, h := vc.byteContent(st)
			c := Select(h, b.Arr)
			for k := 0; k < nbytes; k++ {
				c = Store(c, Add(b.Off, IntC(int64(k))), BVExtract(v, 8*k+7, 8*k))
			}
			st.heap[ki.Name] = Store(h, b.Arr, c)
			vc.noteWrite(st, PHeap, ki.Name, b.Arr, nil)
			vc.used["encoding/binary.LittleEndian: byte k of the buffer is bits 8k..8k+7 of the value"] = true
			return nil
		}
	}
	get := func(nbytes int) modelFn {
		return func(vc *VC, fx *FuncCtx, st *State, fn *ssa.Function, args []Val, rt types.Type, instr ssa.Instruction) Val {
			b, ok := args[1].(*SliceV)
			if !ok {
				return vc.defaultCall(st, fn.String(), fn, args, rt, false)
			}
			vc.check(fx, st, Ge(b.Len, IntC(int64(nbytes))), "binary.LittleEndian.Uint: short buffer", posOf(instr))
			_, h := vc.byteContent(st)
			c := Select(h, b.Arr)
			var v *Term
			for k := nbytes - 1; k >= 0; k-- {
				by := Select(c, Add(b.Off, IntC(int64(k))))
				if v == nil {
					v = by
				} else {
					v = BVConcat(v, by)
				}
			}
			vc.used["encoding/binary.LittleEndian: byte k of the buffer is bits 8k..8k+7 of the value"] = true
			return v
		}
	}
	m["(encoding/binary.littleEndian).PutUint64"] = put(8)
	m["(encoding/binary.littleEndian).PutUint32"] = put(4)
	m["(encoding/binary.littleEndian).PutUint16"] = put(2)
	m["(encoding/binary.littleEndian).Uint64"] = get(8)
	m["(encoding/binary.littleEndian).Uint32"] = get(4)
	m["(encoding/binary.littleEndian).Uint16"] = get(2)
	// ---- sync/atomic: values of atomically accessed locations are volatile (another goroutine may change them) ----
	for _, n := range []string{"LoadInt32", "LoadInt64", "LoadUint32", "LoadUint64"} {
		m["sync/atomic."+n] = func(vc *VC, fx *FuncCtx, st *State, fn *ssa.Function, args []Val, rt types.Type, instr ssa.Instruction) Val {
			vc.used["sync/atomic: a flag read atomically keeps its value for the rest of the handler step (writers are other goroutines; their interleaving is outside the model)"] = true
			if p, ok := args[0].(*PtrV); ok {
				return st.load(p)
			}
			fv, facts := vc.freshVal("atomic", rt)
			for _, f := range facts {
				vc.assume(st, f)
			}
			return fv
		}
	}
	for _, n := range []string{"StoreInt32", "StoreInt64", "StoreUint32", "StoreUint64"} {
		m["sync/atomic."+n] = func(vc *VC, fx *FuncCtx, st *State, fn *ssa.Function, args []Val, rt types.Type, instr ssa.Instruction) Val {
			if p, ok := args[0].(*PtrV); ok {
				st.store(p, args[1])
			}
			return nil
		}
	}
	for _, n := range []string{"CompareAndSwapInt32", "CompareAndSwapInt64", "CompareAndSwapUint32", "CompareAndSwapUint64"} {
		// sequential reading, consistent with atomic loads being stable within a step: the swap happens exactly when the
		// location still holds the expected value
		m["sync/atomic."+n] = func(vc *VC, fx *FuncCtx, st *State, fn *ssa.Function, args []Val, rt types.Type, instr ssa.Instruction) Val {
			p, ok := args[0].(*PtrV)
			ov, ok1 := args[1].(*Term)
			nv, ok2 := args[2].(*Term)
			if !ok || !ok1 || !ok2 {
				if ok {
					st.havocPlace(p)
				}
				return Fresh("cas", BoolSort)
			}
			cur, isT := st.load(p).(*Term)
			if !isT {
				st.havocPlace(p)
				return Fresh("cas", BoolSort)
			}
			hit := Eq(cur, ov)
			st.store(p, Ite(hit, nv, cur))
			return hit
		}
	}
	for _, n := range []string{"AddInt32", "AddInt64", "AddUint32", "AddUint64", "SwapInt32", "SwapInt64"} {
		m["sync/atomic."+n] = func(vc *VC, fx *FuncCtx, st *State, fn *ssa.Function, args []Val, rt types.Type, instr ssa.Instruction) Val {
			if p, ok := args[0].(*PtrV); ok {
				st.havocPlace(p)
			}
			fv, facts := vc.freshVal("atomic", rt)
			for _, f := range facts {
				vc.assume(st, f)
			}
			return fv
		}
	}
	// ---- strings.Replace(s, old, new, 1) with literal old/new ----
	m["strings.Replace"] = func(vc *VC, fx *FuncCtx, st *State, fn *ssa.Function, args []Val, rt types.Type, instr ssa.Instruction) Val {
		s, o, nw, n := args[0].(*Term), args[1].(*Term), args[2].(*Term), args[3].(*Term)
		lo, ok1 := strLitValue(o)
		_, ok2 := strLitValue(nw)
		r := App("strings.Replace", StrSort, s, o, nw, n)
		vc.assume(st, Ge(StrLen(r), IntC(0)))
		if ok1 && ok2 && n.IsConst && n.Int.Int64() == 1 && lo != "" {
			// when s starts with old, the first occurrence is the prefix
			pre := vc.hasPrefix(s, o)
			rep := vc.StrCat(nw, vc.StrSub(s, IntC(int64(len(lo))), StrLen(s)))
			vc.assume(st, Implies(pre, Eq(r, rep)))
			vc.used["strings.Replace(s, old, new, 1) == new + s[len(old):] when s starts with old"] = true
		}
		return r
	}
	m["time.Now"] = func(vc *VC, fx *FuncCtx, st *State, fn *ssa.Function, args []Val, rt types.Type, instr ssa.Instruction) Val {
		fv, _ := vc.freshVal("now", rt)
		return fv
	}
}
