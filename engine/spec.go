package main

// Contract files: parser for the //@ language (DESIGN.md section 3).

import (
	"fmt"
	"go/ast"
	"go/parser"
	"go/token"
	"math/big"
	"os"
	"path/filepath"
	"regexp"
	"strconv"
	"strings"
)

// ---------- AST of spec expressions ----------

type SX struct {
	K       string // id int char str bool un bin call idx slice sel quant cond in
	Op      string
	Name    string
	Val     *big.Int
	Str     string
	A       []*SX
	Binders []SBinder
}

type SBinder struct {
	Name string
	Type string
}

func (x *SX) String() string {
	switch x.K {
	case "id":
		return x.Name
	case "int":
		return x.Val.String()
	case "char":
		return strconv.QuoteRune(rune(x.Val.Int64()))
	case "str":
		return strconv.Quote(x.Str)
	case "bool":
		return x.Name
	case "un":
		return x.Op + x.A[0].String()
	case "bin":
		return "(" + x.A[0].String() + " " + x.Op + " " + x.A[1].String() + ")"
	case "call":
		var as []string
		for _, a := range x.A[1:] {
			as = append(as, a.String())
		}
		return x.A[0].String() + "(" + strings.Join(as, ", ") + ")"
	case "idx":
		return x.A[0].String() + "[" + x.A[1].String() + "]"
	case "slice":
		lo, hi := "", ""
		if x.A[1] != nil {
			lo = x.A[1].String()
		}
		if x.A[2] != nil {
			hi = x.A[2].String()
		}
		return x.A[0].String() + "[" + lo + ":" + hi + "]"
	case "sel":
		return x.A[0].String() + "." + x.Name
	case "quant":
		var bs []string
		for _, b := range x.Binders {
			bs = append(bs, b.Name+" "+b.Type)
		}
		return "(" + x.Op + " " + strings.Join(bs, ", ") + " :: " + x.A[0].String() + ")"
	case "cond":
		return "(" + x.A[0].String() + " ? " + x.A[1].String() + " : " + x.A[2].String() + ")"
	case "in":
		return "(" + x.A[0].String() + " in " + x.A[1].String() + ")"
	}
	return "?" + x.K
}

// ---------- lexer ----------

type tok struct {
	k string // id num char str op eof
	s string
}

func lexSpec(src string) ([]tok, error) {
	var out []tok
	i := 0
	ops := []string{"<==>", "==>", "&^", "||", "&&", "==", "!=", "<=", ">=", "<<", ">>", "::", "..."}
	for i < len(src) {
		c := src[i]
		switch {
		case c == ' ' || c == '\t' || c == '\n' || c == '\r':
			i++
		case c == '_' || c >= 'a' && c <= 'z' || c >= 'A' && c <= 'Z' || c == '#' || c == '$':
			j := i + 1
			for j < len(src) && (src[j] == '_' || src[j] >= 'a' && src[j] <= 'z' || src[j] >= 'A' && src[j] <= 'Z' || src[j] >= '0' && src[j] <= '9') {
				j++
			}
			out = append(out, tok{"id", src[i:j]})
			i = j
		case c >= '0' && c <= '9':
			j := i + 1
			for j < len(src) && (src[j] >= '0' && src[j] <= '9' || src[j] >= 'a' && src[j] <= 'f' || src[j] >= 'A' && src[j] <= 'F' || src[j] == 'x' || src[j] == 'X' || src[j] == '_') {
				j++
			}
			out = append(out, tok{"num", src[i:j]})
			i = j
		case c == '\'':
			j := i + 1
			for j < len(src) && src[j] != '\'' {
				if src[j] == '\\' {
					j++
				}
				j++
			}
			if j >= len(src) {
				return nil, fmt.Errorf("unterminated char literal")
			}
			out = append(out, tok{"char", src[i : j+1]})
			i = j + 1
		case c == '"':
			j := i + 1
			for j < len(src) && src[j] != '"' {
				if src[j] == '\\' {
					j++
				}
				j++
			}
			if j >= len(src) {
				return nil, fmt.Errorf("unterminated string literal")
			}
			out = append(out, tok{"str", src[i : j+1]})
			i = j + 1
		default:
			matched := false
			for _, op := range ops {
				if strings.HasPrefix(src[i:], op) {
					out = append(out, tok{"op", op})
					i += len(op)
					matched = true
					break
				}
			}
			if !matched {
				out = append(out, tok{"op", string(c)})
				i++
			}
		}
	}
	out = append(out, tok{"eof", ""})
	return out, nil
}

type sparser struct {
	toks []tok
	p    int
}

func (p *sparser) peek() tok { return p.toks[p.p] }
func (p *sparser) next() tok { t := p.toks[p.p]; p.p++; return t }
func (p *sparser) isOp(s string) bool {
	t := p.peek()
	return t.k == "op" && t.s == s
}
func (p *sparser) isID(s string) bool {
	t := p.peek()
	return t.k == "id" && t.s == s
}
func (p *sparser) expectOp(s string) {
	if !p.isOp(s) {
		panic(fmt.Sprintf("expected %q, got %q", s, p.peek().s))
	}
	p.p++
}

func ParseSpecExpr(src string) (x *SX, err error) {
	src = strings.ReplaceAll(src, "[*]", "[#all]")
	toks, err := lexSpec(src)
	if err != nil {
		return nil, err
	}
	p := &sparser{toks: toks}
	defer func() {
		if r := recover(); r != nil {
			err = fmt.Errorf("spec syntax: %v in %q", r, src)
		}
	}()
	x = p.expr()
	if p.peek().k != "eof" {
		panic(fmt.Sprintf("trailing input at %q", p.peek().s))
	}
	return x, nil
}

func (p *sparser) expr() *SX {
	if p.isID("forall") || p.isID("exists") {
		return p.quant()
	}
	return p.iff()
}

func (p *sparser) quant() *SX {
	op := p.next().s
	var bs []SBinder
	for {
		var names []string
		names = append(names, p.ident())
		for p.isOp(",") {
			p.p++
			names = append(names, p.ident())
		}
		// type: tokens until "," or "::"
		var ts []string
		depth := 0
		for {
			t := p.peek()
			if t.k == "eof" {
				panic("unterminated quantifier binder")
			}
			if depth == 0 && t.k == "op" && (t.s == "," || t.s == "::") {
				break
			}
			if t.k == "op" && (t.s == "[" || t.s == "(") {
				depth++
			}
			if t.k == "op" && (t.s == "]" || t.s == ")") {
				depth--
			}
			ts = append(ts, t.s)
			p.p++
		}
		if len(ts) == 0 {
			panic("missing binder type")
		}
		typ := strings.Join(ts, "")
		if ts[0] == "chan" {
			typ = "chan " + strings.Join(ts[1:], "")
		}
		for _, n := range names {
			bs = append(bs, SBinder{n, typ})
		}
		if p.isOp(",") {
			p.p++
			continue
		}
		break
	}
	p.expectOp("::")
	body := p.expr()
	return &SX{K: "quant", Op: op, Binders: bs, A: []*SX{body}}
}

func (p *sparser) ident() string {
	t := p.next()
	if t.k != "id" {
		panic(fmt.Sprintf("expected identifier, got %q", t.s))
	}
	return t.s
}

func (p *sparser) iff() *SX {
	x := p.impl()
	for p.isOp("<==>") {
		p.p++
		y := p.impl()
		x = &SX{K: "bin", Op: "<==>", A: []*SX{x, y}}
	}
	return x
}

func (p *sparser) impl() *SX {
	x := p.cond()
	if p.isOp("==>") {
		p.p++
		var y *SX
		if p.isID("forall") || p.isID("exists") {
			y = p.quant()
		} else {
			y = p.impl()
		}
		return &SX{K: "bin", Op: "==>", A: []*SX{x, y}}
	}
	return x
}

func (p *sparser) cond() *SX {
	x := p.or()
	if p.isOp("?") {
		p.p++
		a := p.expr()
		p.expectOp(":")
		b := p.expr()
		return &SX{K: "cond", A: []*SX{x, a, b}}
	}
	return x
}

func (p *sparser) or() *SX {
	x := p.and()
	for p.isOp("||") {
		p.p++
		y := p.and()
		x = &SX{K: "bin", Op: "||", A: []*SX{x, y}}
	}
	return x
}

func (p *sparser) and() *SX {
	x := p.cmp()
	for p.isOp("&&") {
		p.p++
		var y *SX
		if p.isID("forall") || p.isID("exists") {
			y = p.quant()
		} else {
			y = p.cmp()
		}
		x = &SX{K: "bin", Op: "&&", A: []*SX{x, y}}
	}
	return x
}

func (p *sparser) cmp() *SX {
	x := p.addx()
	t := p.peek()
	if t.k == "op" {
		switch t.s {
		case "==", "!=", "<", "<=", ">", ">=":
			p.p++
			y := p.addx()
			return &SX{K: "bin", Op: t.s, A: []*SX{x, y}}
		}
	}
	if t.k == "id" && t.s == "in" {
		p.p++
		y := p.addx()
		return &SX{K: "in", A: []*SX{x, y}}
	}
	return x
}

func (p *sparser) addx() *SX {
	x := p.mulx()
	for {
		t := p.peek()
		if t.k == "op" && (t.s == "+" || t.s == "-" || t.s == "|" || t.s == "^") {
			p.p++
			y := p.mulx()
			x = &SX{K: "bin", Op: t.s, A: []*SX{x, y}}
			continue
		}
		return x
	}
}

func (p *sparser) mulx() *SX {
	x := p.unary()
	for {
		t := p.peek()
		if t.k == "op" && (t.s == "*" || t.s == "/" || t.s == "%" || t.s == "<<" || t.s == ">>" || t.s == "&" || t.s == "&^") {
			p.p++
			y := p.unary()
			x = &SX{K: "bin", Op: t.s, A: []*SX{x, y}}
			continue
		}
		return x
	}
}

func (p *sparser) unary() *SX {
	t := p.peek()
	if t.k == "op" && (t.s == "!" || t.s == "-" || t.s == "^" || t.s == "*") {
		p.p++
		x := p.unary()
		return &SX{K: "un", Op: t.s, A: []*SX{x}}
	}
	return p.postfix()
}

func (p *sparser) postfix() *SX {
	x := p.primary()
	for {
		switch {
		case p.isOp("."):
			p.p++
			x = &SX{K: "sel", Name: p.ident(), A: []*SX{x}}
		case p.isOp("["):
			p.p++
			var lo, hi *SX
			if p.isOp(":") {
				p.p++
				if !p.isOp("]") {
					hi = p.expr()
				}
				p.expectOp("]")
				x = &SX{K: "slice", A: []*SX{x, nil, hi}}
				continue
			}
			lo = p.expr()
			if p.isOp(":") {
				p.p++
				if !p.isOp("]") {
					hi = p.expr()
				}
				p.expectOp("]")
				x = &SX{K: "slice", A: []*SX{x, lo, hi}}
				continue
			}
			p.expectOp("]")
			x = &SX{K: "idx", A: []*SX{x, lo}}
		case p.isOp("("):
			p.p++
			args := []*SX{x}
			for !p.isOp(")") {
				args = append(args, p.expr())
				if p.isOp(",") {
					p.p++
				}
			}
			p.expectOp(")")
			x = &SX{K: "call", A: args}
		default:
			return x
		}
	}
}

func (p *sparser) primary() *SX {
	t := p.next()
	switch t.k {
	case "id":
		if t.s == "true" || t.s == "false" {
			return &SX{K: "bool", Name: t.s}
		}
		if t.s == "forall" || t.s == "exists" {
			p.p--
			return p.quant()
		}
		return &SX{K: "id", Name: t.s}
	case "num":
		v, ok := new(big.Int).SetString(strings.ReplaceAll(t.s, "_", ""), 0)
		if !ok {
			panic("bad number " + t.s)
		}
		return &SX{K: "int", Val: v}
	case "char":
		r, _, _, err := strconv.UnquoteChar(t.s[1:len(t.s)-1], '\'')
		if err != nil {
			panic("bad char literal " + t.s)
		}
		return &SX{K: "char", Val: big.NewInt(int64(r))}
	case "str":
		s, err := strconv.Unquote(t.s)
		if err != nil {
			panic("bad string literal " + t.s)
		}
		return &SX{K: "str", Str: s}
	case "op":
		if t.s == "(" {
			x := p.expr()
			p.expectOp(")")
			return x
		}
	}
	panic(fmt.Sprintf("unexpected token %q", t.s))
}

// ---------- contract declarations ----------

type Clause struct {
	Kind    string // requires ensures invariant decreases assert
	Assumed bool   // used by callers, not verified against the body (listed as an assumption)
	Tags    []string
	Label string
	Expr  *SX
	Src   string
	File  string
	Line  int
}

type LoopSpec struct {
	N          int
	Unroll     int // 0 = use invariants
	Invariants []*Clause
	Iterates   []*Clause // relations between the state at the loop head and at the end of one iteration (prev(e) = value at the head)
	Decreases  *Clause
}

type FuncContract struct {
	Pkg       string // package directory relative to /repo (or import path for externals)
	Header    string
	Recv      string // receiver type name without '*', "" for plain functions
	RecvName  string
	Name      string
	Params    []string // names
	PTypes    []string
	Results   []string
	RTypes    []string
	Requires  []*Clause
	Ensures   []*Clause
	Modifies  []*SX
	HasMod    bool
	ModAll    bool
	ModInferred bool // frame = the write set inferred from the function's body (over-approximation computed by the engine)
	Models    string // "pkgpath#Func": this contract describes that library function for arguments of the parameter's dynamic type
	Loops     map[int]*LoopSpec
	Flags     map[string]bool // nopanic safe pure inline trusted
	External  bool
	Tags      map[string]bool
	File      string
	Line      int
	CallAsserts []*CallAssert
	RecvFacts []*RecvFact
}

// RecvFact: an assumption about every value received from a channel (what the environment may send).
type RecvFact struct {
	Chan *SX
	Var  string
	Expr *SX
	Src  string
}

type CallAssert struct {
	Callee string
	K      int
	Clause *Clause
}

type SpecFunc struct {
	Name    string
	Params  []string
	PTypes  []string
	RType   string
	Body    *SX // nil => uninterpreted
	Pkg     string
	File    string
	Line    int
}

type Lemma struct {
	Name string
	Tags []string
	Expr *SX
	Src  string
	Pkg  string
	File string
	Line int
}

// BoundedCheck: an exhaustive execution of real code over a stated finite domain (a bounded stand-in, never
// counted as proved).
type BoundedCheck struct {
	Name    string
	Tags    []string
	Vars    []BoundedVar
	GoExpr  string
	Pkg     string
	Imports []string
}

type BoundedVar struct {
	Name, Type string
	Lo, Hi     int64
}

type GhostVar struct {
	Name string
	Type string
	Pkg  string
}

type FieldDecl struct {
	Kind   string // guarded atomic immutable confined
	Fields []string
	By     string
	Pkg    string
	Tags   []string
}

type ContractSet struct {
	Funcs     []*FuncContract
	SpecFuncs map[string]*SpecFunc // key pkgdir + ":" + name ; also global by name
	Lemmas    []*Lemma
	Ghosts    []*GhostVar
	Bounded   []*BoundedCheck
	Fields    []*FieldDecl
	Stables   []string // heap keys of package-level variables that are set during start-up only
	Files     []string
}

var clauseKeywords = map[string]bool{
	"func": true, "requires": true, "ensures": true, "preserves": true, "modifies": true, "loop": true,
	"stable": true, "invariant": true, "iterates": true, "decreases": true, "onrecv": true, "assert": true, "nopanic": true, "safe": true, "nooverflow": true, "locksafe": true, "pure": true,
	"inline": true, "trusted": true, "models": true, "spec": true, "lemma": true, "ghost": true, "external": true,
	"guarded": true, "atomic": true, "immutable": true, "confined": true, "purefunc": true, "bounded": true,
}

var tagRe = regexp.MustCompile(`^\[((?:C[0-9]+|assumed)(?:\s*,\s*(?:C[0-9]+|assumed))*)\]\s*`)
var labelRe = regexp.MustCompile(`^([A-Za-z_][A-Za-z0-9_]*)\s*:(?:[^:]|$)`)

type rawItem struct {
	text string
	line int
}

// splitItems groups //@ lines into items starting at keyword lines.
func splitItems(src string) []rawItem {
	var items []rawItem
	for i, ln := range strings.Split(src, "\n") {
		t := strings.TrimSpace(ln)
		if !strings.HasPrefix(t, "//@") {
			continue
		}
		body := strings.TrimSpace(t[3:])
		if body == "" {
			continue
		}
		// strip trailing comment introduced by " // "
		if k := strings.Index(body, " // "); k >= 0 {
			body = strings.TrimSpace(body[:k])
		}
		first := body
		if k := strings.IndexAny(body, " \t("); k >= 0 {
			first = body[:k]
		}
		if clauseKeywords[first] || len(items) == 0 {
			items = append(items, rawItem{body, i + 1})
		} else {
			items[len(items)-1].text += " " + body
		}
	}
	return items
}

func parseHeader(hdr string) (recvName, recv, name string, params, ptypes, results, rtypes []string, err error) {
	src := "package p\n" + hdr + "\n"
	fset := token.NewFileSet()
	f, perr := parser.ParseFile(fset, "hdr.go", src, 0)
	if perr != nil {
		err = perr
		return
	}
	fd, ok := f.Decls[0].(*ast.FuncDecl)
	if !ok {
		err = fmt.Errorf("not a func header: %s", hdr)
		return
	}
	name = fd.Name.Name
	typeStr := func(e ast.Expr) string {
		return src[fset.Position(e.Pos()).Offset:fset.Position(e.End()).Offset]
	}
	if fd.Recv != nil && len(fd.Recv.List) == 1 {
		r := fd.Recv.List[0]
		if len(r.Names) > 0 {
			recvName = r.Names[0].Name
		}
		recv = strings.TrimPrefix(typeStr(r.Type), "*")
	}
	k := 0
	for _, fl := range fd.Type.Params.List {
		if len(fl.Names) == 0 {
			params = append(params, fmt.Sprintf("$p%d", k))
			ptypes = append(ptypes, typeStr(fl.Type))
			k++
		}
		for _, n := range fl.Names {
			params = append(params, n.Name)
			ptypes = append(ptypes, typeStr(fl.Type))
			k++
		}
	}
	if fd.Type.Results != nil {
		k = 0
		for _, fl := range fd.Type.Results.List {
			if len(fl.Names) == 0 {
				results = append(results, fmt.Sprintf("$r%d", k))
				rtypes = append(rtypes, typeStr(fl.Type))
				k++
			}
			for _, n := range fl.Names {
				results = append(results, n.Name)
				rtypes = append(rtypes, typeStr(fl.Type))
				k++
			}
		}
	}
	return
}

func parseTagsLabel(s string) (tags []string, label string, rest string) {
	rest = strings.TrimSpace(s)
	if m := tagRe.FindStringSubmatch(rest); m != nil {
		for _, t := range strings.Split(m[1], ",") {
			tags = append(tags, strings.TrimSpace(t))
		}
		rest = rest[len(m[0]):]
	}
	if m := labelRe.FindStringSubmatch(rest); m != nil {
		if m[1] != "forall" && m[1] != "exists" {
			label = m[1]
			rest = strings.TrimSpace(rest[strings.Index(rest, ":")+1:])
		}
	}
	return
}

func (cs *ContractSet) ParseFile(path, pkgdir string) error {
	data, err := os.ReadFile(path)
	if err != nil {
		return err
	}
	cs.Files = append(cs.Files, path)
	items := splitItems(string(data))
	var cur *FuncContract
	var curLoop *LoopSpec
	mkClause := func(kind, text string, line int) (*Clause, error) {
		tags, label, rest := parseTagsLabel(text)
		x, err := ParseSpecExpr(rest)
		if err != nil {
			return nil, fmt.Errorf("%s:%d: %v", path, line, err)
		}
		cl := &Clause{Kind: kind, Label: label, Expr: x, Src: rest, File: path, Line: line}
		for _, t := range tags {
			if t == "assumed" {
				cl.Assumed = true
			} else {
				cl.Tags = append(cl.Tags, t)
			}
		}
		return cl, nil
	}
	for _, it := range items {
		kw := it.text
		rest := ""
		if k := strings.IndexAny(it.text, " \t"); k >= 0 {
			kw = it.text[:k]
			rest = strings.TrimSpace(it.text[k+1:])
		}
		switch kw {
		case "func", "external":
			hdr := it.text
			ext := false
			if kw == "external" {
				ext = true
				hdr = "func " + rest
			}
			fc := &FuncContract{Pkg: pkgdir, Header: hdr, Loops: map[int]*LoopSpec{}, Flags: map[string]bool{}, Tags: map[string]bool{}, External: ext, File: path, Line: it.line}
			if ext {
				// external pkg.Func(...) or external (recv pkg.T) Name(...)
				h := rest
				if !strings.HasPrefix(h, "(") {
					// qualified function name: split pkg path
					k := strings.Index(h, "(")
					q := h[:k]
					dot := strings.LastIndex(q, ".")
					if dot < 0 {
						return fmt.Errorf("%s:%d: external needs a qualified name", path, it.line)
					}
					fc.Pkg = q[:dot]
					hdr = "func " + q[dot+1:] + h[k:]
				} else {
					// receiver form: (r pkg/path.T) Name(...)
					close := strings.Index(h, ")")
					rv := strings.Fields(h[1:close])
					if len(rv) != 2 {
						return fmt.Errorf("%s:%d: external receiver must be '(name pkg.Type)'", path, it.line)
					}
					q := strings.TrimPrefix(rv[1], "*")
					dot := strings.LastIndex(q, ".")
					fc.Pkg = q[:dot]
					star := ""
					if strings.HasPrefix(rv[1], "*") {
						star = "*"
					}
					hdr = "func (" + rv[0] + " " + star + q[dot+1:] + ")" + h[close+1:]
				}
				hdr = stripQualifiersInTypes(hdr)
			}
			rn, recv, name, ps, pts, rs, rts, err := parseHeader(hdr)
			if err != nil {
				return fmt.Errorf("%s:%d: %v", path, it.line, err)
			}
			fc.RecvName, fc.Recv, fc.Name, fc.Params, fc.PTypes, fc.Results, fc.RTypes = rn, recv, name, ps, pts, rs, rts
			cs.Funcs = append(cs.Funcs, fc)
			cur = fc
			curLoop = nil
		case "requires", "ensures":
			if cur == nil {
				return fmt.Errorf("%s:%d: clause outside func", path, it.line)
			}
			c, err := mkClause(kw, rest, it.line)
			if err != nil {
				return err
			}
			for _, t := range c.Tags {
				cur.Tags[t] = true
			}
			if kw == "requires" {
				cur.Requires = append(cur.Requires, c)
			} else {
				cur.Ensures = append(cur.Ensures, c)
			}
			curLoop = nil
		case "preserves":
			c1, err := mkClause("requires", rest, it.line)
			if err != nil {
				return err
			}
			c2, _ := mkClause("ensures", rest, it.line)
			for _, t := range c1.Tags {
				cur.Tags[t] = true
			}
			cur.Requires = append(cur.Requires, c1)
			cur.Ensures = append(cur.Ensures, c2)
			curLoop = nil
		case "modifies":
			if cur == nil {
				return fmt.Errorf("%s:%d: clause outside func", path, it.line)
			}
			cur.HasMod = true
			if rest == "*" || rest == "everything" {
				cur.ModAll = true
			} else if rest == "inferred" {
				cur.ModInferred = true
			} else if rest != "nothing" {
				for _, part := range splitTopLevel(rest, ',') {
					x, err := ParseSpecExpr(strings.TrimSpace(part))
					if err != nil {
						return fmt.Errorf("%s:%d: %v", path, it.line, err)
					}
					cur.Modifies = append(cur.Modifies, x)
				}
			}
			curLoop = nil
		case "loop":
			f := strings.Fields(rest)
			n, err := strconv.Atoi(f[0])
			if err != nil {
				return fmt.Errorf("%s:%d: loop needs a number", path, it.line)
			}
			ls := &LoopSpec{N: n}
			if len(f) >= 3 && f[1] == "unroll" {
				ls.Unroll, _ = strconv.Atoi(f[2])
			}
			cur.Loops[n] = ls
			curLoop = ls
		case "invariant":
			if curLoop == nil {
				return fmt.Errorf("%s:%d: invariant outside loop", path, it.line)
			}
			c, err := mkClause("invariant", rest, it.line)
			if err != nil {
				return err
			}
			curLoop.Invariants = append(curLoop.Invariants, c)
		case "iterates":
			if curLoop == nil {
				return fmt.Errorf("%s:%d: iterates outside loop", path, it.line)
			}
			c, err := mkClause("iterates", rest, it.line)
			if err != nil {
				return err
			}
			for _, t := range c.Tags {
				cur.Tags[t] = true
			}
			curLoop.Iterates = append(curLoop.Iterates, c)
		case "decreases":
			if curLoop == nil {
				continue
			}
			c, err := mkClause("decreases", rest, it.line)
			if err != nil {
				return err
			}
			curLoop.Decreases = c
		case "assert":
			// assert at call Callee[#K] [tags] label: expr
			f := strings.Fields(rest)
			if len(f) < 4 || f[0] != "at" || f[1] != "call" {
				return fmt.Errorf("%s:%d: malformed assert", path, it.line)
			}
			callee := f[2]
			k := 0
			if h := strings.Index(callee, "#"); h >= 0 {
				k, _ = strconv.Atoi(callee[h+1:])
				callee = callee[:h]
			}
			idx := strings.Index(rest, f[2]) + len(f[2])
			c, err := mkClause("assert", rest[idx:], it.line)
			if err != nil {
				return err
			}
			for _, t := range c.Tags {
				cur.Tags[t] = true
			}
			cur.CallAsserts = append(cur.CallAsserts, &CallAssert{Callee: callee, K: k, Clause: c})
		case "models":
			if cur == nil {
				return fmt.Errorf("%s:%d: models outside func", path, it.line)
			}
			q := strings.TrimSpace(rest)
			dot := strings.LastIndex(q, ".")
			if dot < 0 {
				return fmt.Errorf("%s:%d: models needs pkg.Func", path, it.line)
			}
			cur.Models = q[:dot] + "#" + q[dot+1:]
			cur.Flags["trusted"] = true
		case "onrecv":
			// onrecv <channel expr> as <name>: <assumed fact about the received value>
			if cur == nil {
				return fmt.Errorf("%s:%d: onrecv outside func", path, it.line)
			}
			i := strings.Index(rest, " as ")
			j := strings.Index(rest, ":")
			if i < 0 || j < i {
				return fmt.Errorf("%s:%d: malformed onrecv", path, it.line)
			}
			ch, err := ParseSpecExpr(strings.TrimSpace(rest[:i]))
			if err != nil {
				return fmt.Errorf("%s:%d: %v", path, it.line, err)
			}
			ex, err := ParseSpecExpr(strings.TrimSpace(rest[j+1:]))
			if err != nil {
				return fmt.Errorf("%s:%d: %v", path, it.line, err)
			}
			cur.RecvFacts = append(cur.RecvFacts, &RecvFact{Chan: ch, Var: strings.TrimSpace(rest[i+4 : j]), Expr: ex, Src: rest})
		case "nopanic", "safe", "pure", "inline", "trusted", "nooverflow", "locksafe":
			if cur == nil {
				return fmt.Errorf("%s:%d: flag outside func", path, it.line)
			}
			cur.Flags[kw] = true
			tags, _, _ := parseTagsLabel(rest)
			for _, t := range tags {
				cur.Tags[t] = true
			}
		case "spec":
			// spec func name(params) T [{ return expr }]
			r := strings.TrimSpace(strings.TrimPrefix(rest, "func"))
			var body *SX
			hdr := r
			if b := strings.Index(r, "{"); b >= 0 {
				hdr = strings.TrimSpace(r[:b])
				bs := strings.TrimSpace(r[b+1:])
				bs = strings.TrimSuffix(strings.TrimSpace(bs), "}")
				bs = strings.TrimSpace(strings.TrimPrefix(strings.TrimSpace(bs), "return"))
				x, err := ParseSpecExpr(bs)
				if err != nil {
					return fmt.Errorf("%s:%d: %v", path, it.line, err)
				}
				body = x
			}
			_, _, name, ps, pts, _, rts, err := parseHeader("func " + hdr)
			if err != nil {
				return fmt.Errorf("%s:%d: %v", path, it.line, err)
			}
			rt := "bool"
			if len(rts) > 0 {
				rt = rts[0]
			}
			sf := &SpecFunc{Name: name, Params: ps, PTypes: pts, RType: rt, Body: body, Pkg: pkgdir, File: path, Line: it.line}
			if cs.SpecFuncs == nil {
				cs.SpecFuncs = map[string]*SpecFunc{}
			}
			cs.SpecFuncs[name] = sf
			cur = nil
		case "lemma":
			tags, label, r := parseTagsLabel(rest)
			x, err := ParseSpecExpr(r)
			if err != nil {
				return fmt.Errorf("%s:%d: %v", path, it.line, err)
			}
			cs.Lemmas = append(cs.Lemmas, &Lemma{Name: label, Tags: tags, Expr: x, Src: r, Pkg: pkgdir, File: path, Line: it.line})
			cur = nil
		case "bounded":
			// bounded [tags] name: x T in lo..hi, y T in lo..hi :: <Go boolean expression over x, y>
			tags, label, r := parseTagsLabel(rest)
			parts := strings.SplitN(r, "::", 2)
			if len(parts) != 2 || label == "" {
				return fmt.Errorf("%s:%d: malformed bounded check", path, it.line)
			}
			bc := &BoundedCheck{Name: label, Tags: tags, GoExpr: strings.TrimSpace(parts[1]), Pkg: pkgdir}
			for _, vs := range strings.Split(parts[0], ",") {
				f := strings.Fields(vs)
				if len(f) != 4 || f[2] != "in" {
					return fmt.Errorf("%s:%d: bounded variable must be 'name Type in lo..hi'", path, it.line)
				}
				lh := strings.Split(f[3], "..")
				if len(lh) != 2 {
					return fmt.Errorf("%s:%d: bad range %s", path, it.line, f[3])
				}
				lo, _ := strconv.ParseInt(lh[0], 0, 64)
				hi, _ := strconv.ParseInt(lh[1], 0, 64)
				bc.Vars = append(bc.Vars, BoundedVar{f[0], f[1], lo, hi})
			}
			cs.Bounded = append(cs.Bounded, bc)
			cur = nil
		case "stable":
			// stable glob:main.globals.hub - a package-level variable (or a field of one) assigned only while the
			// server starts; calls made while serving requests do not change it
			for _, k := range strings.Fields(rest) {
				cs.Stables = append(cs.Stables, strings.TrimSuffix(k, ","))
			}
			cur = nil
		case "ghost":
			f := strings.Fields(rest)
			if len(f) >= 3 && f[0] == "var" {
				cs.Ghosts = append(cs.Ghosts, &GhostVar{Name: f[1], Type: strings.Join(f[2:], " "), Pkg: pkgdir})
			}
			cur = nil
		case "guarded", "atomic", "immutable", "confined", "purefunc":
			tags, _, r := parseTagsLabel(rest)
			fd := &FieldDecl{Kind: kw, Pkg: pkgdir, Tags: tags}
			parts := strings.Split(r, " by ")
			if kw == "confined" {
				parts = strings.Split(r, " to ")
			}
			for _, f := range strings.Split(parts[0], ",") {
				fd.Fields = append(fd.Fields, strings.TrimSpace(f))
			}
			if len(parts) > 1 {
				fd.By = strings.TrimSpace(parts[1])
			}
			cs.Fields = append(cs.Fields, fd)
			cur = nil
		default:
			return fmt.Errorf("%s:%d: unknown item %q", path, it.line, kw)
		}
	}
	return nil
}

// stripQualifiersInTypes turns "a/b/pkg.T" into "pkg.T" so that go/parser accepts the header.
func stripQualifiersInTypes(h string) string {
	re := regexp.MustCompile(`[A-Za-z0-9_./-]+/`)
	return re.ReplaceAllString(h, "")
}

func splitTopLevel(s string, sep byte) []string {
	var out []string
	depth := 0
	start := 0
	for i := 0; i < len(s); i++ {
		switch s[i] {
		case '(', '[', '{':
			depth++
		case ')', ']', '}':
			depth--
		default:
			if s[i] == sep && depth == 0 {
				out = append(out, s[start:i])
				start = i + 1
			}
		}
	}
	out = append(out, s[start:])
	return out
}

// LoadContracts finds every zz_contracts_verif.go under root and the external contract file.
func LoadContracts(root string, extra []string) (*ContractSet, error) {
	cs := &ContractSet{SpecFuncs: map[string]*SpecFunc{}}
	var files []string
	filepath.Walk(root, func(p string, info os.FileInfo, err error) error {
		if err != nil {
			return nil
		}
		if info.IsDir() && (info.Name() == ".git" || info.Name() == "node_modules") {
			return filepath.SkipDir
		}
		if !info.IsDir() && info.Name() == "zz_contracts_verif.go" {
			files = append(files, p)
		}
		return nil
	})
	for _, f := range files {
		rel, _ := filepath.Rel(root, filepath.Dir(f))
		if err := cs.ParseFile(f, "./"+rel); err != nil {
			return nil, err
		}
	}
	for _, f := range extra {
		if err := cs.ParseFile(f, ""); err != nil {
			return nil, err
		}
	}
	return cs, nil
}

func (fc *FuncContract) Key() string {
	if fc.Recv != "" {
		return fc.Recv + "." + fc.Name
	}
	return fc.Name
}
