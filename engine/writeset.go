package main

// Inferred write sets: for every repository function, the heap-key prefixes it may write
// (transitively). Used as the default frame of callees that have no contract.

import (
	"go/types"
	"sort"
	"strings"

	"golang.org/x/tools/go/ssa"
	"golang.org/x/tools/go/ssa/ssautil"
)

type wset struct {
	all  bool
	why  string
	keys map[string]bool
}

func (w *wset) setAll(why string) {
	if !w.all {
		w.all = true
		w.why = why
	}
}

func (w *wset) list() []string {
	var out []string
	for k := range w.keys {
		out = append(out, k)
	}
	sort.Strings(out)
	return out
}

func (w *wset) add(k string) bool {
	if w.all || k == "" || w.keys[k] {
		return false
	}
	w.keys[k] = true
	return true
}

func (w *wset) merge(o *wset) bool {
	if w.all {
		return false
	}
	if o.all {
		w.all = true
		w.why = "via callee: " + o.why
		return true
	}
	ch := false
	for k := range o.keys {
		if !w.keys[k] {
			w.keys[k] = true
			ch = true
		}
	}
	return ch
}

// staticKey derives the heap-key prefix an address value denotes, "" for locals.
func staticKey(v ssa.Value) string {
	switch x := v.(type) {
	case *ssa.FieldAddr:
		base := staticKey(x.X)
		if base == "" {
			return ""
		}
		st := x.X.Type().Underlying().(*types.Pointer).Elem().Underlying().(*types.Struct)
		return base + "." + st.Field(x.Field).Name()
	case *ssa.IndexAddr:
		switch t := x.X.Type().Underlying().(type) {
		case *types.Slice:
			return elemKey(t.Elem())
		case *types.Pointer:
			if at, ok := t.Elem().Underlying().(*types.Array); ok {
				return elemKey(at.Elem())
			}
		}
		return "*"
	case *ssa.Alloc:
		// a variable or object created by this very function: writes to it are invisible to callers (the
		// object did not exist before the call)
		return ""
	case *ssa.Global:
		return "glob:" + pkgShort(x.Pkg.Pkg) + "." + x.Name()
	case *ssa.FreeVar:
		// captured variable: a heap cell of the enclosing function
		if pt, ok := x.Type().Underlying().(*types.Pointer); ok {
			return typeKey(pt.Elem())
		}
	}
	if pt, ok := v.Type().Underlying().(*types.Pointer); ok {
		if at, ok := pt.Elem().Underlying().(*types.Array); ok {
			return elemKey(at.Elem())
		}
		return typeKey(pt.Elem())
	}
	return "*"
}

func argKeys(t types.Type) []string {
	if pt, ok := t.Underlying().(*types.Pointer); ok {
		for _, im := range immutableLibTypes {
			if typeKey(pt.Elem()) == im {
				return nil
			}
		}
	}
	switch u := t.Underlying().(type) {
	case *types.Slice:
		return []string{elemKey(u.Elem())}
	case *types.Pointer:
		return []string{typeKey(u.Elem())}
	case *types.Map:
		return []string{mapKey(u)}
	}
	return nil
}

func (p *Prog) computeWriteSets() {
	p.wsets = map[*ssa.Function]*wset{}
	all := ssautil.AllFunctions(p.SSA)
	var fns []*ssa.Function
	for fn := range all {
		if isRepoFunc(fn) && len(fn.Blocks) > 0 {
			fns = append(fns, fn)
			p.wsets[fn] = &wset{keys: map[string]bool{}}
		}
	}
	sort.Slice(fns, func(i, j int) bool { return fns[i].String() < fns[j].String() })
	// implementations of interface methods, by method name
	implByName := map[string][]*ssa.Function{}
	for _, fn := range fns {
		if fn.Signature.Recv() != nil && fn.Synthetic == "" && !strings.Contains(fn.String(), "/mock_") {
			implByName[fn.Name()] = append(implByName[fn.Name()], fn)
		}
	}
	type edge struct {
		callee *ssa.Function
	}
	calls := map[*ssa.Function][]*ssa.Function{}
	for _, fn := range fns {
		w := p.wsets[fn]
		for _, b := range fn.Blocks {
			for _, in := range b.Instrs {
				switch x := in.(type) {
				case *ssa.Store:
					k := staticKey(x.Addr)
					if k == "*" {
						w.setAll("store through untracked address in " + fn.Name())
					} else {
						w.add(k)
					}
				case *ssa.MapUpdate:
					w.add(mapKey(x.Map.Type().Underlying().(*types.Map)))
				case *ssa.Send:
					w.add("ghost:sentTotal")
					w.add("ghost:sent<" + chanKey(x.Chan.Type()) + ">")
					w.add("ghost:last<" + chanKey(x.Chan.Type()) + ">")
				case *ssa.Select:
					for _, s := range x.States {
						if s.Dir == types.SendOnly {
							w.add("ghost:sent<" + chanKey(s.Chan.Type()) + ">")
							w.add("ghost:last<" + chanKey(s.Chan.Type()) + ">")
						} else {
							w.add("ghost:taken<" + chanKey(s.Chan.Type()) + ">")
							w.add("ghost:lasttaken<" + chanKey(s.Chan.Type()) + ">")
						}
					}
				case *ssa.MakeClosure:
					if cf, ok := x.Fn.(*ssa.Function); ok {
						calls[fn] = append(calls[fn], cf)
					}
				}
				var cc *ssa.CallCommon
				switch x := in.(type) {
				case *ssa.Call:
					cc = &x.Call
				case *ssa.Go:
					cc = &x.Call
					w.add("ghost:spawnedTotal")
					if sf, ok := x.Call.Value.(*ssa.Function); ok && !x.Call.IsInvoke() {
						w.add("ghost:spawned:" + sf.Name())
					}
				case *ssa.Defer:
					cc = &x.Call
				}
				if cc == nil {
					continue
				}
				if cc.IsInvoke() {
					m := cc.Method
					if m.Pkg() != nil && (purePkgs[m.Pkg().Path()] || !strings.HasPrefix(m.Pkg().Path(), repoModule) || opaqueIfacePkg(m.Pkg().Path())) {
						if fc := p.ContractForMethod(m); fc != nil {
							p.addContractFrame(w, fc)
							continue
						}
						sig := m.Type().(*types.Signature)
						for i := 0; i < sig.Params().Len(); i++ {
							for _, k := range argKeys(sig.Params().At(i).Type()) {
								w.add(k)
							}
						}
						continue
					}
					if m.Pkg() == nil { // error.Error
						continue
					}
					if fc := p.ContractForMethod(m); fc != nil {
						p.addContractFrame(w, fc)
						continue
					}
					impls := implByName[m.Name()]
					found := false
					for _, im := range impls {
						if types.Identical(stripRecv(im.Signature), stripRecv(m.Type().(*types.Signature))) {
							calls[fn] = append(calls[fn], im)
							found = true
						}
					}
					if !found || !strings.HasPrefix(m.Pkg().Path(), repoModule) {
						w.setAll("interface call " + m.FullName() + " in " + fn.Name())
					}
					continue
				}
				switch cv := cc.Value.(type) {
				case *ssa.Builtin:
					switch cv.Name() {
					case "copy":
						for _, k := range argKeys(cc.Args[0].Type()) {
							w.add(k)
						}
					case "delete":
						w.add(mapKey(cc.Args[0].Type().Underlying().(*types.Map)))
					}
				case *ssa.Function:
					p.addCallee(w, fn, cv, cc, calls)
				case *ssa.MakeClosure:
					if cf, ok := cv.Fn.(*ssa.Function); ok {
						calls[fn] = append(calls[fn], cf)
					}
				default:
					// function value of unknown origin, unless loaded from a field declared pure
					if u, ok := cc.Value.(*ssa.UnOp); ok {
						if k := staticKey(u.X); k != "" && p.pureFields[k] {
							continue
						}
					}
					if nt, isNamed := types.Unalias(cc.Value.Type()).(*types.Named); isNamed && nt.Obj().Pkg() != nil && nt.Obj().Pkg().Path() == "context" && nt.Obj().Name() == "CancelFunc" {
						continue
					}
					w.setAll("call of function value in " + fn.Name())
				}
			}
		}
	}
	for changed := true; changed; {
		changed = false
		for _, fn := range fns {
			w := p.wsets[fn]
			for _, c := range calls[fn] {
				if cw, ok := p.wsets[c]; ok {
					if w.merge(cw) {
						changed = true
					}
				}
			}
		}
	}
}

func stripRecv(s *types.Signature) *types.Signature {
	return types.NewSignatureType(nil, nil, nil, s.Params(), s.Results(), s.Variadic())
}

func (p *Prog) addContractFrame(w *wset, fc *FuncContract) {
	if fc.ModAll {
		w.setAll("contract modifies * of " + fc.Key())
		return
	}
	for _, m := range fc.Modifies {
		// ghost state named in a modifies clause is tracked by name; other locations are resolved only at call
		// sites, so be conservative there
		root := m
		for root.K == "idx" || root.K == "sel" {
			root = root.A[0]
		}
		if root.K == "id" && p.ghost(root.Name) != nil {
			w.add("ghost:" + root.Name)
			continue
		}
		if m.K == "un" && m.Op == "*" {
			// pointee of an argument: covered by the argument rule of the caller
			continue
		}
		w.setAll("contract with modifies clause: " + fc.Key())
		return
	}
}

// staticLocType resolves the static type of a location expression over the parameters of sig; key is the heap
// key prefix the location lives under ("" for a parameter itself).
func (p *Prog) staticLoc(fc *FuncContract, sig *types.Signature, x *SX) (t types.Type, key string, ok bool) {
	switch x.K {
	case "id":
		if sig.Recv() != nil && x.Name == fc.RecvName {
			return sig.Recv().Type(), "", true
		}
		for i, n := range fc.Params {
			if n == x.Name && i < sig.Params().Len() {
				return sig.Params().At(i).Type(), "", true
			}
		}
		return nil, "", false
	case "sel":
		bt, _, ok := p.staticLoc(fc, sig, x.A[0])
		if !ok {
			return nil, "", false
		}
		if pt, isP := bt.Underlying().(*types.Pointer); isP {
			bt = pt.Elem()
		}
		st, isS := bt.Underlying().(*types.Struct)
		if !isS {
			return nil, "", false
		}
		for i := 0; i < st.NumFields(); i++ {
			if st.Field(i).Name() == x.Name {
				// fields of array elements live under the element key
				base := typeKey(bt)
				if x.A[0].K == "idx" {
					if _, k0, ok0 := p.staticLoc(fc, sig, x.A[0]); ok0 && k0 != "" {
						base = k0
					}
				}
				return st.Field(i).Type(), base + "." + x.Name, true
			}
		}
		return nil, "", false
	case "idx":
		bt, _, ok := p.staticLoc(fc, sig, x.A[0])
		if !ok {
			return nil, "", false
		}
		switch u := bt.Underlying().(type) {
		case *types.Slice:
			return u.Elem(), elemKey(u.Elem()), true
		case *types.Map:
			return u.Elem(), mapKey(u), true
		}
		return nil, "", false
	case "un":
		if x.Op == "*" {
			bt, _, ok := p.staticLoc(fc, sig, x.A[0])
			if !ok {
				return nil, "", false
			}
			if pt, isP := bt.Underlying().(*types.Pointer); isP {
				return pt.Elem(), typeKey(pt.Elem()), true
			}
		}
	case "call":
		if x.A[0].K == "id" && x.A[0].Name == "heap" && len(x.A) == 2 && x.A[1].K == "str" {
			return nil, x.A[1].Str, true
		}
	}
	return nil, "", false
}

// addExplicitFrame adds the heap keys named by an explicit modifies clause; false if an item cannot be resolved.
func (p *Prog) addExplicitFrame(w *wset, fc *FuncContract, sig *types.Signature) bool {
	var keys []string
	for _, m := range fc.Modifies {
		root := m
		for root.K == "idx" || root.K == "sel" {
			root = root.A[0]
		}
		if root.K == "id" && p.ghost(root.Name) != nil {
			keys = append(keys, "ghost:"+root.Name)
			continue
		}
		_, k, ok := p.staticLoc(fc, sig, m)
		if !ok || k == "" {
			return false
		}
		keys = append(keys, k)
	}
	for _, k := range keys {
		w.add(k)
	}
	return true
}

func (p *Prog) addCallee(w *wset, caller, callee *ssa.Function, cc *ssa.CallCommon, calls map[*ssa.Function][]*ssa.Function) {
	if fc := p.ContractForFunc(callee); fc != nil && (callee.Synthetic == "" || len(callee.Blocks) == 0) {
		if fc.ModAll || fc.ModInferred || len(fc.Modifies) > 0 {
			if !fc.ModAll && !fc.ModInferred && p.addExplicitFrame(w, fc, callee.Signature) {
				return
			}
			if len(callee.Blocks) > 0 && isRepoFunc(callee) {
				calls[caller] = append(calls[caller], callee)
				return
			}
			p.addContractFrame(w, fc)
		}
		return
	}
	if _, ok := builtinModels[callee.String()]; ok {
		return
	}
	if len(callee.Blocks) > 0 && isRepoFunc(callee) {
		calls[caller] = append(calls[caller], callee)
		return
	}
	if !isRepoFunc(callee) && writesThroughIface[shortName(callee.String())] {
		w.setAll("library function writing through an interface argument: " + callee.String())
		return
	}
	if !isRepoFunc(callee) {
		// library function: reaches repository state only through its arguments and closures passed to it
		for _, a := range cc.Args {
			switch x := a.(type) {
			case *ssa.MakeClosure:
				if cf, ok := x.Fn.(*ssa.Function); ok {
					calls[caller] = append(calls[caller], cf)
				}
			case *ssa.Function:
				calls[caller] = append(calls[caller], x)
			}
		}
		sig := callee.Signature
		if sig.Recv() != nil {
			for _, k := range argKeys(sig.Recv().Type()) {
				w.add(k)
			}
		}
		for i := 0; i < sig.Params().Len(); i++ {
			for _, k := range argKeys(sig.Params().At(i).Type()) {
				w.add(k)
			}
		}
		return
	}
	w.setAll("external " + callee.String() + " called from " + caller.Name())
}

// stableWriters lists, for a key declared stable, the functions that store to it. Only start-up code may.
func (p *Prog) stableWriters(key string) []string {
	var out []string
	for fn := range ssautil.AllFunctions(p.SSA) {
		if !isRepoFunc(fn) || len(fn.Blocks) == 0 {
			continue
		}
		for _, b := range fn.Blocks {
			for _, in := range b.Instrs {
				if st, ok := in.(*ssa.Store); ok {
					if k := staticKey(st.Addr); k != "" && k != "*" && (k == key || keyHasPrefix(k, key)) {
						out = append(out, fn.String())
					}
				}
			}
		}
	}
	sort.Strings(out)
	return out
}

func startupFunc(name string) bool {
	short := name
	if i := strings.LastIndex(short, "."); i >= 0 {
		short = short[i+1:]
	}
	return short == "main" || short == "init" || strings.HasPrefix(short, "init#")
}

// guardedAccessors lists the repository functions that take the address of a field declared guarded.
func (p *Prog) guardedAccessors() map[string][]string {
	out := map[string][]string{}
	for fn := range ssautil.AllFunctions(p.SSA) {
		if !isRepoFunc(fn) || len(fn.Blocks) == 0 || fn.Synthetic != "" {
			continue
		}
		for _, b := range fn.Blocks {
			for _, in := range b.Instrs {
				fa, ok := in.(*ssa.FieldAddr)
				if !ok {
					continue
				}
				k := staticKey(fa)
				if _, g := p.guarded[k]; g {
					// an object created by this very function is not shared yet (staticKey gives "" for those)
					out[k] = append(out[k], fn.String())
				}
			}
		}
	}
	return out
}
