package main

import (
	"encoding/json"
	"flag"
	"fmt"
	"os"
	"path/filepath"
	"regexp"
	"sort"
	"strconv"
	"strings"
	"sync"
	"time"
)

var (
	repoRoot  = "/repo"
	verifRoot = "/verif"
	workSuffix = ""
	currentProp = ""
)

func init() {
	// the thorough tier's self-test runs the same check against a scratch copy of the tree with a stored
	// property-breaking change applied
	if r := os.Getenv("VERIF_REPO"); r != "" {
		repoRoot = r
	}
}

type KnownFinding struct {
	Kind       string // finding | fixed
	Property   string
	Obligation string
	Commit     string
	Text       string
}

// recordedFindings: obligations listed as `finding:` - clauses that are known NOT to hold on the tree. They are still
// generated and checked (and reported as KNOWN-FINDING), but nothing may rely on them: assuming a false clause after
// asserting it, or at the call sites of the function that fails it, would make whatever comes later pass vacuously.
var recordedFindings = map[string]bool{}

func loadKnownFindings() []KnownFinding {
	data, err := os.ReadFile(filepath.Join(verifRoot, "KNOWN_FINDINGS"))
	if err != nil {
		return nil
	}
	var out []KnownFinding
	re := regexp.MustCompile(`^(finding|fixed):\s+property=(C[0-9]+)\s+(?:([0-9a-f]{7,40})\s+)?obligation=(\S+)\s*(?:::\s*(.*))?$`)
	for _, ln := range strings.Split(string(data), "\n") {
		ln = strings.TrimSpace(ln)
		if m := re.FindStringSubmatch(ln); m != nil {
			out = append(out, KnownFinding{Kind: m[1], Property: m[2], Commit: m[3], Obligation: m[4], Text: m[5]})
			if m[1] == "finding" {
				recordedFindings[m[4]] = true
			}
		}
	}
	return out
}

type oblJob struct {
	fr *FuncResult
	o  *Obligation
	expectSat bool
}

func main() {
	if len(os.Args) < 2 {
		fmt.Fprintln(os.Stderr, "usage: vcgen check <Cxx> [--tier quick|thorough] | vcgen replay <file>")
		os.Exit(2)
	}
	switch os.Args[1] {
	case "check":
		os.Exit(cmdCheck(os.Args[2:]))
	case "replay":
		os.Exit(cmdReplay(os.Args[2:]))
	case "wset":
		cs, err := LoadContracts(repoRoot, []string{filepath.Join(verifRoot, "stdlib.contracts")})
		if err != nil {
			fmt.Println("ERROR", err)
			os.Exit(1)
		}
		prog, err := LoadProg(repoRoot, []string{os.Args[2]}, "verif", cs)
		if err != nil {
			fmt.Println("ERROR", err)
			os.Exit(1)
		}
		prog.computeWriteSets()
		for fn, ws := range prog.wsets {
			for _, n := range os.Args[3:] {
				if fn.Name() == n {
					if ws.all {
						fmt.Printf("%s: ALL (%s)\n", fn.String(), ws.why)
					} else {
						fmt.Printf("%s: %v\n", fn.String(), ws.list())
					}
				}
			}
		}
	case "parse":
		cs, err := LoadContracts(repoRoot, []string{filepath.Join(verifRoot, "stdlib.contracts")})
		if err != nil {
			fmt.Println("ERROR", err)
			os.Exit(1)
		}
		fmt.Printf("%d function contracts, %d spec funcs, %d lemmas\n", len(cs.Funcs), len(cs.SpecFuncs), len(cs.Lemmas))
	default:
		fmt.Fprintln(os.Stderr, "unknown command")
		os.Exit(2)
	}
}

var partialRun bool

func cmdCheck(args []string) int {
	fs := flag.NewFlagSet("check", flag.ExitOnError)
	tier := fs.String("tier", "", "quick or thorough")
	only := fs.String("only", "", "restrict to functions whose name contains this")
	keep := fs.Bool("keep", false, "keep SMT files of proved obligations")
	verbose := fs.Bool("v", false, "verbose")
	var prop string
	if len(args) > 0 && !strings.HasPrefix(args[0], "-") {
		prop = args[0]
		args = args[1:]
	}
	fs.Parse(args)
	if prop == "" {
		fmt.Fprintln(os.Stderr, "property id required")
		return 2
	}
	if *tier == "" {
		*tier = os.Getenv("VERIF_TIER")
	}
	if *tier == "" {
		*tier = "quick"
	}
	seed := 0
	if s := os.Getenv("VERIF_SEED"); s != "" {
		seed, _ = strconv.Atoi(s)
	}
	start := time.Now()
	partialRun = *only != "" || os.Getenv("VERIF_SELFTEST") != ""
	curProp = prop
	timeoutS := 60
	if *tier == "thorough" {
		timeoutS = 180
	}
	// runs against a scratch copy of the tree (self-test, seeded changes) may overlap with each other and with a run
	// on /repo: they get work directories of their own, removed at the end
	if os.Getenv("VERIF_SELFTEST") != "" || os.Getenv("VERIF_REPO") != "" {
		workSuffix = fmt.Sprintf(".%d", os.Getpid())
	}
	currentProp = prop
	workDir := filepath.Join(verifRoot, "work", prop+workSuffix)
	os.RemoveAll(workDir)
	os.MkdirAll(workDir, 0o755)
	if workSuffix != "" && !*keep {
		defer os.RemoveAll(workDir)
		defer os.RemoveAll(replayWorkDir())
	}
	replayDir := filepath.Join(verifRoot, "replays")
	if os.Getenv("VERIF_SELFTEST") != "" {
		// what a self-test run finds in its scratch copy is not a finding about /repo
		replayDir = filepath.Join(verifRoot, "work", "replays_selftest")
	}
	os.MkdirAll(replayDir, 0o755)

	fail := func(msg string) int {
		// an engine-level failure is reported as a violation of the check itself only when the tree changed;
		// we cannot tell here, so report loudly and exit 1 with a replay file carrying the reason.
		rp := filepath.Join(replayDir, prop+"_engine.json")
		writeJSON(rp, map[string]any{"property": prop, "obligation": "engine", "verdict": "no-failing-input-found", "solver_output": msg})
		fmt.Printf("VIOLATION property=%s replay=%s no-failing-input-found\n", prop, rp)
		fmt.Println("reason:", msg)
		writeEvidence(prop, *tier, seed, nil, nil, time.Since(start).Seconds(), 1, []string{msg}, nil, nil)
		return 1
	}

	loadKnownFindings() // fills recordedFindings before any obligation is generated
	cs, err := LoadContracts(repoRoot, []string{filepath.Join(verifRoot, "stdlib.contracts")})
	if err != nil {
		return fail("contract files do not parse: " + err.Error())
	}
	// functions and lemmas serving this property
	var fcs []*FuncContract
	pkgs := map[string]bool{}
	for _, fc := range cs.Funcs {
		if fc.Tags[prop] && !fc.External && !fc.Flags["trusted"] && !isInterfaceContract(fc) && fc.Models == "" {
			fcs = append(fcs, fc)
			pkgs[fc.Pkg] = true
		}
	}
	var lemmas []*Lemma
	for _, lm := range cs.Lemmas {
		for _, t := range lm.Tags {
			if t == prop {
				lemmas = append(lemmas, lm)
				if lm.Pkg != "" {
					pkgs[lm.Pkg] = true
				}
			}
		}
	}
	var boundeds []*BoundedCheck
	for _, bc := range cs.Bounded {
		for _, t := range bc.Tags {
			if t == prop {
				boundeds = append(boundeds, bc)
				if bc.Pkg != "" {
					pkgs[bc.Pkg] = true
				}
			}
		}
	}
	if len(fcs) == 0 && len(lemmas) == 0 && len(boundeds) == 0 {
		return fail("no contract carries tag [" + prop + "] (vacuity guard: zero obligations)")
	}
	tags := "verif"
	var patterns []string
	for p := range pkgs {
		patterns = append(patterns, p)
		if strings.Contains(p, "db/mysql") && !strings.Contains(tags, "mysql") {
			tags += ",mysql"
		}
		if strings.Contains(p, "db/postgres") && !strings.Contains(tags, "postgres") {
			tags += ",postgres"
		}
	}
	sort.Strings(patterns)
	if pkgs["./server"] {
		// handlers call into most repository packages: load them all so that callee bodies and write sets are available
		patterns = []string{"./server/..."}
	}
	prog, err := LoadProg(repoRoot, patterns, tags, cs)
	if err != nil {
		return fail("cannot load packages: " + err.Error())
	}
	if st := prog.staleHeaders(); len(st) > 0 {
		return fail("contract headers name no function or method of a loaded package (stale contract header): " + strings.Join(st, "; "))
	}
	prog.computeWriteSets()
	loadS := time.Since(start).Seconds()

	for _, k := range cs.Stables {
		for _, w := range prog.stableWriters(k) {
			if !startupFunc(w) {
				return fail("variable " + k + " is declared stable but is assigned by " + w + " (not start-up code)")
			}
		}
	}
	// lock discipline is only as good as its coverage: every function that touches a guarded field must be under a
	// locksafe contract of this property
	if len(prog.guarded) > 0 {
		tagged := false
		for _, fd := range cs.Fields {
			if fd.Kind == "guarded" && containsStr(fd.Tags, prop) {
				tagged = true
			}
		}
		if tagged {
			covered := map[string]bool{}
			for _, fc := range fcs {
				if fc.Flags["locksafe"] {
					if fn := prog.FindFunc(fc); fn != nil {
						covered[fn.String()] = true
					}
				}
			}
			var missing []string
			for k, fns := range prog.guardedAccessors() {
				for _, f := range fns {
					// a closure is checked as part of the function that creates it (it is executed in place; handing
					// it to code that is not executed in place is itself an obligation failure)
					if i := strings.Index(f, "$"); i > 0 && covered[f[:i]] {
						continue
					}
					if !covered[f] {
						missing = append(missing, f+" (touches "+k+")")
					}
				}
			}
			sort.Strings(missing)
			if len(missing) > 0 && *only == "" {
				return fail("functions access lock-protected fields but are not under a locksafe contract: " + strings.Join(missing, "; "))
			}
		}
	}
	var results []*FuncResult
	for _, fc := range fcs {
		if *only != "" && !strings.Contains(fc.Key(), *only) {
			continue
		}
		t0 := time.Now()
		r := VerifyFunc(prog, fc)
		// clauses tagged for other properties only are discharged by those properties' checks (here they are assumed
		// where the function relies on them)
		if r.FC != nil {
			kept := r.Obls[:0:0]
			for _, o := range r.Obls {
				if len(o.Tags) > 0 && !containsStr(o.Tags, prop) && o.Kind != "stale" {
					r.SkippedOther++
					continue
				}
				kept = append(kept, o)
			}
			r.Obls = kept
		}
		if *verbose {
			fmt.Printf("  generated %-50s %3d obligations %6.2fs %s\n", r.Name, len(r.Obls), time.Since(t0).Seconds(), r.Err)
			for _, u := range r.Unmod {
				fmt.Printf("      unmodelled: %s\n", u)
			}
			if r.VC != nil {
				seen := map[string]bool{}
				for _, h := range r.VC.havocLog {
					if !seen[h] {
						seen[h] = true
						fmt.Printf("      havoc: %s\n", h)
					}
				}
				for _, n := range r.Notes {
					fmt.Printf("      note: %s\n", n)
				}
			}
		}
		results = append(results, r)
	}
	for _, lm := range lemmas {
		if *only != "" && !strings.Contains(lm.Name, *only) {
			continue
		}
		results = append(results, VerifyLemma(prog, lm))
	}
	genS := time.Since(start).Seconds() - loadS

	// solve
	var jobs []oblJob
	for _, r := range results {
		for _, o := range r.Obls {
			jobs = append(jobs, oblJob{r, o, false})
		}
		if r.PreSat != nil {
			jobs = append(jobs, oblJob{r, r.PreSat, true})
		}
		for _, g := range r.PathGuards {
			if len(g.Tags) > 0 && !containsStr(g.Tags, prop) {
				continue
			}
			jobs = append(jobs, oblJob{r, g, true})
		}
		if r.Canary != nil {
			jobs = append(jobs, oblJob{r, r.Canary, true})
		}
	}
	// scripts are printed sequentially (the term pool is not concurrent), solved in parallel
	type prepared struct {
		job     oblJob
		subs    []*Obligation
		scripts []string
		paths   []string
		solved  []bool
	}
	var preps []*prepared
	for i, j := range jobs {
		if j.o.Taint != "" && !j.expectSat {
			j.o.Status = "unsupported"
			j.o.Output = j.o.Taint
			continue
		}
		if j.expectSat {
			j.o.QFOnly = true
		}
		p := &prepared{job: j}
		parts := []*Term{j.o.Goal}
		if !j.expectSat {
			parts = splitGoal(j.o.Goal)
		}
		for k, g := range parts {
			sub := *j.o
			sub.Goal = g
			sc, _ := obligationScript(j.fr, &sub, nil)
			p.subs = append(p.subs, &sub)
			p.scripts = append(p.scripts, sc)
			p.paths = append(p.paths, filepath.Join(workDir, fmt.Sprintf("%04d_%s.%d.smt2", i, fileSafe(j.o.Name), k)))
			p.solved = append(p.solved, false)
		}
		j.o.Status = "proved"
		preps = append(preps, p)
	}
	known := loadKnownFindings()
	knownName := map[string]bool{}
	for _, kf := range known {
		if kf.Kind == "finding" && kf.Property == prop {
			knownName[kf.Obligation] = true
		}
	}
	var solverSeconds float64
	var mu sync.Mutex
	// phase 1: plain queries with a short limit; phase 2: the rest raced together with their ground instantiation
	for phase := 1; phase <= 2; phase++ {
		grounds := map[*prepared][]string{}
		if phase == 2 {
			for _, p := range preps {
				gs := make([]string, len(p.scripts))
				for k := range p.scripts {
					if !p.solved[k] && !p.job.expectSat && p.job.o.Status == "proved" {
						gs[k] = groundScript(p.job.fr, p.subs[k])
					}
				}
				grounds[p] = gs
			}
		}
		var wg sync.WaitGroup
		sem := make(chan struct{}, 6)
		for _, p := range preps {
			if p.job.o.Status != "proved" {
				continue
			}
			pending := false
			for k := range p.scripts {
				if !p.solved[k] {
					pending = true
				}
			}
			if !pending {
				continue
			}
			wg.Add(1)
			sem <- struct{}{}
			go func(p *prepared) {
				defer wg.Done()
				defer func() { <-sem }()
				to := timeoutS
				if phase == 2 && knownName[p.job.o.Name] {
					// a listed finding is expected to fail: no long attempt
					if p.job.o.Status == "proved" {
						p.job.o.Status = "unknown"
					}
					return
				}
				if p.job.expectSat {
					// vacuity guards: one short attempt (a quantified query that is satisfiable is often `unknown`)
					if phase == 2 {
						return
					}
					to = 10
				}
				if phase == 1 && to > 3 && !p.job.expectSat {
					to = 3
				}
				o := p.job.o
				for k := range p.scripts {
					if p.solved[k] {
						continue
					}
					g := ""
					if phase == 2 {
						g = grounds[p][k]
					}
					t0 := time.Now()
					r := runSolvers2(p.scripts[k], g, p.paths[k], to, *tier == "thorough" && !p.job.expectSat && phase == 2, seed)
					if *verbose && time.Since(t0).Seconds() > 5 {
						fmt.Printf("  wall %.1fs phase %d %s conjunct %d -> %s (%s)\n", time.Since(t0).Seconds(), phase, o.Name, k, r.Status, r.Backend)
					}
					o.Seconds += r.Seconds
					if r.Backend != "" {
						o.Backend = r.Backend
					}
					mu.Lock()
					solverSeconds += r.Seconds
					mu.Unlock()
					if r.Status == "unsat" {
						p.solved[k] = true
						if !*keep {
							os.Remove(p.paths[k])
						}
						continue
					}
					if r.Status == "sat" {
						o.Status = "failed"
						o.Output = fmt.Sprintf("conjunct %d/%d: %s %s", k+1, len(p.scripts), r.Status, r.Output)
						break
					}
					if phase == 2 || p.job.expectSat {
						o.Status = "unknown"
						o.Output = fmt.Sprintf("conjunct %d/%d: %s %s", k+1, len(p.scripts), r.Status, r.Output)
						break
					}
				}
			}(p)
		}
		wg.Wait()
		if *verbose {
			fmt.Printf("  phase %d done at %.1fs\n", phase, time.Since(start).Seconds())
		}
	}
	var wg sync.WaitGroup
	wg.Wait()

	// interpret
	isKnown := func(name string) *KnownFinding {
		for i := range known {
			if known[i].Kind == "finding" && known[i].Property == prop && known[i].Obligation == name {
				return &known[i]
			}
		}
		return nil
	}
	total, discharged := 0, 0
	violations := 0
	var samples []any
	var funcs []string
	var knownHit []string
	var vacuity []string
	assume := map[string]bool{}
	trusted := map[string]bool{}
	var notes []string
	backends := map[string]int{}
	for _, r := range results {
		funcs = append(funcs, r.Name)
		for _, u := range r.Used {
			if strings.HasPrefix(u, "assumed contract") || strings.HasPrefix(u, "external") || strings.HasPrefix(u, "interface method") {
				trusted[u] = true
			} else {
				assume[u] = true
			}
		}
		for _, u := range r.Unmod {
			assume["unmodelled callee: "+u] = true
		}
		notes = append(notes, r.Notes...)
		if r.Err != "" {
			violations++
			rp := filepath.Join(replayDir, prop+"_"+fileSafe(r.Name)+".json")
			writeJSON(rp, map[string]any{"property": prop, "obligation": r.Name + "#contract", "verdict": "no-failing-input-found", "solver_output": r.Err})
			fmt.Printf("VIOLATION property=%s replay=%s no-failing-input-found\n", prop, rp)
			fmt.Printf("  %s: %s\n", r.Name, r.Err)
			continue
		}
		// vacuity guards
		for _, g := range append([]*Obligation{r.PreSat, r.Canary}, r.PathGuards...) {
			if g == nil || g.Status == "" {
				continue
			}
			switch g.Status {
			case "failed": // sat: as required
				vacuity = append(vacuity, g.Name+": ok")
			case "proved":
				violations++
				rp := filepath.Join(replayDir, prop+"_"+fileSafe(g.Name)+".json")
				writeJSON(rp, map[string]any{"property": prop, "obligation": g.Name, "verdict": "no-failing-input-found", "solver_output": "vacuity guard: the function's precondition/exit is unsatisfiable, every obligation would hold trivially"})
				fmt.Printf("VIOLATION property=%s replay=%s no-failing-input-found\n", prop, rp)
				fmt.Printf("  vacuity guard failed: %s\n", g.Name)
			default:
				vacuity = append(vacuity, g.Name+": undecided ("+g.Status+")")
			}
		}
		for _, o := range r.Obls {
			if kf := isKnown(o.Name); kf != nil {
				if o.Status == "proved" {
					// a listed finding that no longer fails: the list is stale, but the property holds there
					notes = append(notes, "known finding "+o.Name+" is now discharged")
					total++
					discharged++
					continue
				}
				fmt.Printf("KNOWN-FINDING: property=%s %s %s\n", prop, o.Name, kf.Text)
				knownHit = append(knownHit, o.Name)
				continue
			}
			total++
			if *verbose && o.Seconds > 1.0 {
				fmt.Printf("  slow: %-60s %6.2fs %s %s\n", o.Name, o.Seconds, o.Status, o.Backend)
			}
			if o.Status == "proved" {
				discharged++
				backends[o.Backend]++
				if len(samples) < 12 {
					samples = append(samples, map[string]any{"obligation": o.Name, "kind": o.Kind, "backend": o.Backend, "seconds": round3(o.Seconds), "clause": o.Src})
				}
				continue
			}
			violations++
			rp := filepath.Join(replayDir, prop+"_"+fileSafe(o.Name)+".json")
			verdict := replayObligation(prog, r, o, prop, rp, timeoutS)
			suffix := ""
			if verdict != "reproduced" {
				suffix = " no-failing-input-found"
			}
			fmt.Printf("VIOLATION property=%s replay=%s%s\n", prop, rp, suffix)
			fmt.Printf("  obligation %s: %s (%s) %s\n", o.Name, o.Status, o.Src, firstLines(o.Output, 2))
		}
	}
	// bounded stand-ins: exhaustive execution of the real code over the stated finite domain
	var boundedEv []any
	for _, bc := range boundeds {
		if *only != "" && !strings.Contains(bc.Name, *only) {
			continue
		}
		okb, evals, out := runBounded(bc)
		entry := map[string]any{"name": bc.Name, "expression": bc.GoExpr, "domain": fmt.Sprint(bc.Vars), "evaluations": evals, "exhaustive": true, "holds": okb}
		boundedEv = append(boundedEv, entry)
		if !okb {
			violations++
			rp := filepath.Join(replayDir, prop+"_bounded_"+fileSafe(bc.Name)+".json")
			writeJSON(rp, map[string]any{"property": prop, "obligation": "bounded:" + bc.Name, "verdict": "reproduced", "real_output": lastLines(out, 12), "clause": bc.GoExpr})
			fmt.Printf("VIOLATION property=%s replay=%s\n", prop, rp)
			fmt.Printf("  bounded check %s fails on the real code: %s\n", bc.Name, firstLines(lastLines(out, 6), 3))
		} else {
			fmt.Printf("  bounded check %s: %d evaluations of the real code, all hold (bounded, not counted as proved)\n", bc.Name, evals)
		}
	}
	if total == 0 && violations == 0 {
		return fail("zero obligations generated (vacuity guard)")
	}
	sort.Strings(funcs)
	wall := time.Since(start).Seconds()
	extra := map[string]any{
		"functions_under_contract": funcs,
		"known_findings":           knownHit,
		"vacuity":                  vacuity,
		"solver_seconds_total":     round3(solverSeconds),
		"load_seconds":             round3(loadS),
		"generation_seconds":       round3(genS),
		"backends":                 backends,
		"notes":                    notes,
		"bounded":                  boundedEv,
	}
	writeEvidence(prop, *tier, seed, &[2]int{total, discharged}, samples, wall, violations, sortedKeys(assume), sortedKeys(trusted), extra)
	fmt.Printf("%s: %d obligations, %d discharged, %d known findings, %d violations, %.1fs (load %.1fs, gen %.1fs)\n", prop, total, discharged, len(knownHit), violations, wall, loadS, genS)
	if violations > 0 {
		return 1
	}
	return 0
}

// isInterfaceContract: contracts on interface methods (store, adapter, auth ...) are assumptions about the
// implementations behind the interface; there is no body to verify them against here.
func isInterfaceContract(fc *FuncContract) bool {
	if fc.Recv == "" {
		return false
	}
	return strings.HasSuffix(fc.Recv, "Interface") || fc.Recv == "Adapter" || fc.Recv == "AuthHandler" || fc.Recv == "Handler" || fc.Recv == "Validator"
}

func round3(f float64) float64 { return float64(int(f*1000)) / 1000 }

func fileSafe(s string) string {
	var sb strings.Builder
	for _, c := range s {
		if c >= 'a' && c <= 'z' || c >= 'A' && c <= 'Z' || c >= '0' && c <= '9' || c == '.' || c == '_' || c == '-' {
			sb.WriteRune(c)
		} else {
			sb.WriteByte('_')
		}
	}
	return sb.String()
}

func writeJSON(path string, v any) {
	data, _ := json.MarshalIndent(v, "", " ")
	os.MkdirAll(filepath.Dir(path), 0o755)
	os.WriteFile(path, data, 0o644)
}

func writeEvidence(prop, tier string, seed int, counts *[2]int, samples []any, wall float64, violations int, assumptions, trusted []string, extra map[string]any) {
	cov := map[string]any{
		"checker_cmd":  "./check " + prop + " --tier " + tier,
		"trusted_base": append([]string{"go/ssa (x/tools v0.29.0) translation of /repo's working tree", "vcgen VC generator (this repository, /verif/engine)", "SMT solvers z3 4.8.12, z3 5.1.0, cvc5 1.0 (an obligation counts when one answers unsat and none answers sat)"}, trusted...),
		"explanation":  "every obligation is a refutation query generated from the SSA of the functions under contract; discharged = unsat",
	}
	if counts != nil {
		cov["obligations"] = counts[0]
		cov["discharged"] = counts[1]
	} else {
		cov["obligations"] = 0
		cov["discharged"] = 0
	}
	if len(samples) == 0 {
		samples = []any{"none"}
	}
	cov["samples"] = samples
	for k, v := range extra {
		cov[k] = v
	}
	if assumptions == nil {
		assumptions = []string{}
	}
	assumptions = append(assumptions,
		"signed Go integers are mathematical integers (no wrap-around); unsigned types are exact bit-vectors",
		"run-time panics (index out of range, nil dereference) are assumed absent outside functions marked safe/nopanic",
		"one goroutine executes a function body at a time (no interleaving inside a function under contract)")
	ev := map[string]any{
		"property_id": prop,
		"tier":        tier,
		"seed":        seed,
		"level":       "proof",
		"coverage":    cov,
		"assumptions": assumptions,
		"wall_s":      round3(wall),
		"violations":  violations,
	}
	if partialRun {
		// a run restricted with --only is a debugging aid: it must not replace the property's evidence record
		os.MkdirAll(filepath.Join(verifRoot, "work", "partial"), 0o755)
		writeJSON(filepath.Join(verifRoot, "work", "partial", prop+".json"), ev)
		return
	}
	writeJSON(filepath.Join(verifRoot, "evidence", prop+".json"), ev)
}


// replayWorkDir: where replay harnesses and model queries are written (per process for scratch-copy runs).
func replayWorkDir() string { return filepath.Join(verifRoot, "work", "replay_"+currentProp+workSuffix) }
