package main

import (
	"fmt"

	"golang.org/x/tools/go/packages"
	"golang.org/x/tools/go/ssa"
	"golang.org/x/tools/go/ssa/ssautil"
)

var _ = packages.Load
var _ ssa.BuilderMode
var _ = ssautil.AllPackages

func main() { fmt.Println("ok") }
