package main

import (
	"go/types"

	"golang.org/x/tools/go/ssa"
)

func (vc *VC) callBuiltin(fx *FuncCtx, st *State, b *ssa.Builtin, args []Val, c *ssa.CallCommon, rt types.Type, instr ssa.Instruction) Val {
	switch b.Name() {
	case "len":
		return vc.lenOf(st, args[0], c.Args[0].Type())
	case "cap":
		if sv, ok := args[0].(*SliceV); ok {
			return sv.Cap
		}
		fv, _ := vc.freshVal("cap", rt)
		return fv
	case "append":
		return vc.appendOp(st, args[0], args[1], c.Args[0].Type(), c.Args[1].Type())
	case "copy":
		return vc.copyOp(st, args[0], args[1], c.Args[0].Type(), c.Args[1].Type())
	case "delete":
		mt := under(c.Args[0].Type()).(*types.Map)
		m := st.toTerm(args[0], c.Args[0].Type())
		k := vc.mapKeyTerm(st, mt, args[1])
		if gp := vc.guardedMaps[termKey(m)]; gp != nil && instr != nil {
			vc.lockCheck(fx, st, gp, true, instr.Pos())
		}
		vc.mapDelete(st, mt, m, k)
		return nil
	case "close":
		return nil
	case "print", "println":
		return nil
	case "recover":
		return &IfaceV{IntC(0), IntC(0)}
	case "ssa:wrapnilchk":
		return args[0]
	case "ssa:deferstack":
		return IntC(0)
	case "min", "max":
		x, y := args[0].(*Term), args[1].(*Term)
		var lt *Term
		if x.Sort.Kind == SBV {
			lt = BVCmp("bvult", x, y)
		} else {
			lt = Lt(x, y)
		}
		if b.Name() == "min" {
			return Ite(lt, x, y)
		}
		return Ite(lt, y, x)
	}
	st.setTaint("unsupported builtin " + b.Name())
	if rt == nil {
		return nil
	}
	fv, _ := vc.freshVal("builtin", rt)
	return fv
}

func (vc *VC) lenOf(st *State, v Val, t types.Type) *Term {
	switch x := v.(type) {
	case *SliceV:
		return x.Len
	case *SeqV:
		return x.Len
	case *ArrV:
		return IntC(x.N)
	case *Term:
		if x.Sort == StrSort {
			return StrLen(x)
		}
		if mt, ok := under(t).(*types.Map); ok {
			return Ite(Eq(x, IntC(0)), IntC(0), vc.mapLen(st, mt, x))
		}
		if _, ok := under(t).(*types.Chan); ok {
			l := App("chan.len", IntSort, x, Fresh("t", IntSort))
			vc.assume(st, Ge(l, IntC(0)))
			return l
		}
	case *PtrV:
		if at, ok := under(x.Elem).(*types.Array); ok {
			return IntC(at.Len())
		}
	}
	st.setTaint("len of unsupported value")
	return Fresh("len", IntSort)
}

// appendOp models append as producing a fresh backing array that holds the old prefix followed by
// the new elements (aliasing with the old backing array is not modelled).
func (vc *VC) appendOp(st *State, s, t Val, stype, ttype types.Type) Val {
	sv, ok := s.(*SliceV)
	if !ok {
		st.setTaint("append to unsupported value")
		fv, _ := vc.freshVal("append", stype)
		return fv
	}
	et := under(stype).(*types.Slice).Elem()
	ref := vc.freshRef()
	var tlen *Term
	var tsl *SliceV
	var tstr *Term
	switch x := t.(type) {
	case *SliceV:
		tlen = x.Len
		tsl = x
	case *Term:
		if x.Sort == StrSort {
			tlen = StrLen(x)
			tstr = x
		}
	}
	if tlen == nil {
		st.setTaint("append of unsupported value")
		fv, _ := vc.freshVal("append", stype)
		return fv
	}
	newLen := Add(sv.Len, tlen)
	newCap := Fresh("appcap", IntSort)
	vc.assume(st, Ge(newCap, newLen))
	for _, c := range components(et) {
		ki := vc.reg.get(elemKey(et)+c.Suffix, 2, c.Sort, IntSort)
		h := st.heapVar(ki)
		old := Select(h, sv.Arr)
		asort := ArraySort(IntSort, c.Sort)
		var base *Term
		if sv.Off.IsConst && sv.Off.Int.Sign() == 0 {
			base = old
		} else {
			base = Fresh("appbase", asort)
			i := Bound("i", IntSort)
			vc.assume(st, Forall([]*Term{i}, Implies(And(Le(IntC(0), i), Lt(i, sv.Len)), Eq(Select(base, i), Select(old, Add(sv.Off, i))))))
		}
		var content *Term
		if tlen.IsConst && tlen.Int.IsInt64() && tlen.Int.Int64() <= 16 && tsl != nil {
			content = base
			src := Select(h, tsl.Arr)
			for j := int64(0); j < tlen.Int.Int64(); j++ {
				content = Store(content, Add(sv.Len, IntC(j)), Select(src, Add(tsl.Off, IntC(j))))
			}
		} else {
			content = Fresh("appcontent", asort)
			i := Bound("i", IntSort)
			vc.assume(st, Forall([]*Term{i}, Implies(And(Le(IntC(0), i), Lt(i, sv.Len)), Eq(Select(content, i), Select(base, i)))))
			j := Bound("j", IntSort)
			var srcAt *Term
			if tsl != nil {
				srcAt = Select(Select(h, tsl.Arr), Add(tsl.Off, j))
			} else {
				srcAt = StrAt(tstr, j)
			}
			vc.assume(st, Forall([]*Term{j}, Implies(And(Le(IntC(0), j), Lt(j, tlen)), Eq(Select(content, Add(sv.Len, j)), srcAt))))
		}
		st.heap[ki.Name] = Store(h, ref, content)
	}
	vc.used["append: result modelled as a fresh backing array (no aliasing with the argument's spare capacity)"] = true
	return &SliceV{ref, IntC(0), newLen, newCap}
}

func (vc *VC) copyOp(st *State, d, s Val, dtype, stype types.Type) Val {
	dv, ok := d.(*SliceV)
	if !ok {
		st.setTaint("copy to unsupported value")
		return Fresh("copied", IntSort)
	}
	et := under(dtype).(*types.Slice).Elem()
	var slen *Term
	var ssl *SliceV
	var sstr *Term
	switch x := s.(type) {
	case *SliceV:
		slen, ssl = x.Len, x
	case *Term:
		if x.Sort == StrSort {
			slen, sstr = StrLen(x), x
		}
	}
	if slen == nil {
		st.setTaint("copy from unsupported value")
		return Fresh("copied", IntSort)
	}
	n := Ite(Lt(dv.Len, slen), dv.Len, slen)
	for _, c := range components(et) {
		ki := vc.reg.get(elemKey(et)+c.Suffix, 2, c.Sort, IntSort)
		h := st.heapVar(ki)
		old := Select(h, dv.Arr)
		content := Fresh("copycontent", ArraySort(IntSort, c.Sort))
		i := Bound("i", IntSort)
		var srcAt *Term
		if ssl != nil {
			srcAt = Select(Select(h, ssl.Arr), Add(ssl.Off, Sub(i, dv.Off)))
		} else {
			srcAt = StrAt(sstr, Sub(i, dv.Off))
		}
		inRange := And(Le(dv.Off, i), Lt(i, Add(dv.Off, n)))
		vc.assume(st, Forall([]*Term{i}, Eq(Select(content, i), Ite(inRange, srcAt, Select(old, i)))))
		st.heap[ki.Name] = Store(h, dv.Arr, content)
		vc.noteWrite(st, PHeap, ki.Name, dv.Arr, nil)
	}
	return n
}

// ---------- Go-coded models of library functions ----------

type modelFn func(vc *VC, fx *FuncCtx, st *State, fn *ssa.Function, args []Val, rt types.Type, instr ssa.Instruction) Val
type invokeFn func(vc *VC, fx *FuncCtx, st *State, args []Val, rt types.Type) (Val, bool)

var builtinModels map[string]modelFn
var invokeModels = map[string]invokeFn{}

func (vc *VC) newError(st *State, kind string) *IfaceV {
	d := Fresh("err:"+kind, IntSort)
	vc.assume(st, Gt(d, IntC(0)))
	return &IfaceV{Tag: vc.typeTagNamed("*errors.errorString"), Data: d}
}

func (vc *VC) typeTagNamed(k string) *Term {
	if id, ok := vc.typeTags[k]; ok {
		return IntC(int64(id))
	}
	id := len(vc.typeTags) + 1
	vc.typeTags[k] = id
	return IntC(int64(id))
}

func init() {
	builtinModels = map[string]modelFn{
		"errors.New": func(vc *VC, fx *FuncCtx, st *State, fn *ssa.Function, args []Val, rt types.Type, instr ssa.Instruction) Val {
			vc.used["errors.New / fmt.Errorf return a non-nil error"] = true
			return vc.newError(st, "new")
		},
		"fmt.Errorf": func(vc *VC, fx *FuncCtx, st *State, fn *ssa.Function, args []Val, rt types.Type, instr ssa.Instruction) Val {
			vc.used["errors.New / fmt.Errorf return a non-nil error"] = true
			return vc.newError(st, "errorf")
		},
		"strings.HasPrefix": func(vc *VC, fx *FuncCtx, st *State, fn *ssa.Function, args []Val, rt types.Type, instr ssa.Instruction) Val {
			vc.used["strings.HasPrefix(s, p): len(s) >= len(p) and s[:len(p)] == p"] = true
			return vc.hasPrefix(args[0].(*Term), args[1].(*Term))
		},
		"strings.HasSuffix": func(vc *VC, fx *FuncCtx, st *State, fn *ssa.Function, args []Val, rt types.Type, instr ssa.Instruction) Val {
			return App("strings.HasSuffix", BoolSort, args[0].(*Term), args[1].(*Term))
		},
		"strings.Contains": func(vc *VC, fx *FuncCtx, st *State, fn *ssa.Function, args []Val, rt types.Type, instr ssa.Instruction) Val {
			vc.used["strings.Contains(s, sub): a pure (uninterpreted) function of its two arguments"] = true
			return App("strings.Contains", BoolSort, args[0].(*Term), args[1].(*Term))
		},
		"strings.ContainsAny": func(vc *VC, fx *FuncCtx, st *State, fn *ssa.Function, args []Val, rt types.Type, instr ssa.Instruction) Val {
			vc.used["strings.ContainsAny / IndexAny over an ASCII literal set: first index whose byte is in the set"] = true
			s, chars := args[0].(*Term), args[1].(*Term)
			idx := vc.indexAny(st, s, chars)
			return Ge(idx, IntC(0))
		},
		"strings.IndexAny": func(vc *VC, fx *FuncCtx, st *State, fn *ssa.Function, args []Val, rt types.Type, instr ssa.Instruction) Val {
			vc.used["strings.ContainsAny / IndexAny over an ASCII literal set: first index whose byte is in the set"] = true
			return vc.indexAny(st, args[0].(*Term), args[1].(*Term))
		},
		"(*sync.Mutex).Lock":      lockModel("lock"),
		"(*sync.Mutex).Unlock":    lockModel("unlock"),
		"(*sync.RWMutex).Lock":    lockModel("lock"),
		"(*sync.RWMutex).Unlock":  lockModel("unlock"),
		"(*sync.RWMutex).RLock":   lockModel("rlock"),
		"(*sync.RWMutex).RUnlock": lockModel("runlock"),
	}
}

func lockModel(kind string) modelFn {
	return func(vc *VC, fx *FuncCtx, st *State, fn *ssa.Function, args []Val, rt types.Type, instr ssa.Instruction) Val {
		p, ok := args[0].(*PtrV)
		id := "?"
		if ok {
			id = p.Key
			if p.Base != nil {
				id += "@" + termKey(p.Base)
			}
		}
		if st.held == nil {
			st.held = map[string]*Term{}
		}
		switch kind {
		case "lock":
			st.held["w:"+id] = True()
		case "unlock":
			st.held["w:"+id] = False()
		case "rlock":
			st.held["r:"+id] = True()
		case "runlock":
			st.held["r:"+id] = False()
		}
		return nil
	}
}

func termKey(t *Term) string {
	if t.IsVar || t.IsConst {
		if t.IsConst {
			return t.Int.String()
		}
		return t.Op
	}
	return "t" + itoa(t.ID)
}

func itoa(i int) string {
	if i == 0 {
		return "0"
	}
	s := ""
	n := i
	if n < 0 {
		n = -n
	}
	for n > 0 {
		s = string(rune('0'+n%10)) + s
		n /= 10
	}
	if i < 0 {
		s = "-" + s
	}
	return s
}

func (vc *VC) hasPrefix(s, p *Term) *Term {
	if lit, ok := strLitValue(p); ok {
		cs := []*Term{Ge(StrLen(s), IntC(int64(len(lit))))}
		for i := 0; i < len(lit); i++ {
			cs = append(cs, Eq(StrAt(s, IntC(int64(i))), BVC(uint64(lit[i]), 8)))
		}
		return And(cs...)
	}
	// general case: p is no longer than s and the first len(p) bytes agree
	i := Bound("i", IntSort)
	return And(Ge(StrLen(s), StrLen(p)), Forall([]*Term{i}, Implies(And(Le(IntC(0), i), Lt(i, StrLen(p))), Eq(StrAt(s, i), StrAt(p, i)))))
}

// indexAny: for a literal ASCII set, the least index i with s[i] in the set, or -1.
func (vc *VC) indexAny(st *State, s, chars *Term) *Term {
	lit, ok := strLitValue(chars)
	if !ok {
		r := Fresh("indexany", IntSort)
		vc.assume(st, And(Ge(r, IntC(-1)), Lt(r, StrLen(s))))
		return r
	}
	for i := 0; i < len(lit); i++ {
		if lit[i] >= 0x80 {
			r := Fresh("indexany", IntSort)
			vc.assume(st, And(Ge(r, IntC(-1)), Lt(r, StrLen(s))))
			return r
		}
	}
	inSet := func(b *Term) *Term {
		var ds []*Term
		for i := 0; i < len(lit); i++ {
			ds = append(ds, Eq(b, BVC(uint64(lit[i]), 8)))
		}
		return Or(ds...)
	}
	r := App("strings.IndexAny:"+lit, IntSort, s)
	if vc.strDone[r] {
		return r
	}
	vc.strDone[r] = true
	j := Bound("j", IntSort)
	vc.addGlobalFact(And(Ge(r, IntC(-1)), Lt(r, StrLen(s))))
	vc.addGlobalFact(Implies(Ge(r, IntC(0)), inSet(StrAt(s, r))))
	vc.addGlobalFact(Forall([]*Term{j}, Implies(And(Le(IntC(0), j), Lt(j, StrLen(s)), Or(Lt(j, r), Lt(r, IntC(0)))), Not(inSet(StrAt(s, j))))))
	return r
}
