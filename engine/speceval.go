package main

// Evaluation of spec expressions over symbolic states.

import (
	"fmt"
	"go/constant"
	"go/token"
	"go/types"
	"math/big"
	"strings"
)

type SV struct {
	V     Val
	Place *PtrV
	T     types.Type
	C     *big.Int // untyped integer constant
	St    *State   // state this value reads the heap in (nil: environment's current state)
	Guard *Term    // for map elements: the key is present (otherwise the value is the zero value)
}

type SpecEnv struct {
	vc    *VC
	st    *State
	old   *State
	vars  map[string]*SV
	fx    *FuncCtx
	fr    *Frame
	pkg   *types.Package
	depth int
	cur   *State // inside old(): the state in which program locals are read
	prev  *State // loop body relations: the state at the loop head of the current iteration
	inPrev bool  // evaluating inside prev(): loop-carried locals take their value at the loop head
}

func (vc *VC) specEnvFor(fx *FuncCtx, st *State, fr *Frame) *SpecEnv {
	env := &SpecEnv{vc: vc, st: st, old: vc.entry, vars: map[string]*SV{}, fx: fx, fr: fr}
	if fx.fc != nil {
		env.pkg = vc.prog.typesPkgOf(fx.fc)
	} else if fx.fn.Pkg != nil {
		env.pkg = fx.fn.Pkg.Pkg
	}
	if fx.top {
		for n, v := range vc.params {
			env.vars["old$"+n] = v
		}
	}
	return env
}

func (e *SpecEnv) stateOf(v *SV) *State {
	if v.St != nil {
		return v.St
	}
	return e.st
}

func (e *SpecEnv) evalBool(x *SX) (t *Term, err error) {
	defer func() {
		if r := recover(); r != nil {
			err = fmt.Errorf("%v", r)
		}
	}()
	v, err := e.eval(x)
	if err != nil {
		return nil, err
	}
	b, ok := e.value(v).(*Term)
	if !ok || b.Sort.Kind != SBool {
		return nil, fmt.Errorf("expression %s is not boolean", x)
	}
	return b, nil
}

// value materialises an SV into a Val.
func (e *SpecEnv) value(v *SV) Val {
	if v.Place != nil && v.Place.Kind == PCell {
		if _, isGhost := v.Place.Elem.(ghostType); isGhost {
			return e.stateOf(v).cells[v.Place.Cell]
		}
	}
	if v.Place != nil {
		lv := e.stateOf(v).load(v.Place)
		if v.Guard != nil {
			if m, ok := mergeVals(v.Guard, lv, zeroVal(v.T)); ok {
				return m
			}
		}
		return lv
	}
	if v.V == nil && v.C != nil {
		return IntBig(v.C)
	}
	return v.V
}

func (e *SpecEnv) resolveType(s string) (types.Type, error) {
	if e.pkg == nil {
		return nil, fmt.Errorf("no package to resolve type %s", s)
	}
	if s == "int" {
		return types.Typ[types.Int], nil
	}
	s = strings.TrimSpace(s)
	if strings.HasPrefix(s, "*") {
		t, err := e.resolveType(s[1:])
		if err != nil {
			return nil, err
		}
		return types.NewPointer(t), nil
	}
	if strings.HasPrefix(s, "[]") {
		t, err := e.resolveType(s[2:])
		if err != nil {
			return nil, err
		}
		return types.NewSlice(t), nil
	}
	if i := strings.Index(s, "."); i > 0 && !strings.ContainsAny(s, "[]( ") {
		// qualified name: imports are file-scoped in Go, so resolve the package by its name among the imports
		for _, imp := range e.pkg.Imports() {
			if imp.Name() == s[:i] {
				if tn, ok := imp.Scope().Lookup(s[i+1:]).(*types.TypeName); ok {
					return tn.Type(), nil
				}
			}
		}
	}
	tv, err := types.Eval(token.NewFileSet(), e.pkg, token.NoPos, s)
	if err != nil {
		// try universe-qualified spelling through imports
		return nil, fmt.Errorf("cannot resolve type %q: %v", s, err)
	}
	if !tv.IsType() {
		return nil, fmt.Errorf("%q is not a type", s)
	}
	return tv.Type, nil
}

func constToSV(c constant.Value, t types.Type) *SV {
	if b, ok := t.Underlying().(*types.Basic); ok && b.Info()&types.IsUntyped != 0 {
		switch c.Kind() {
		case constant.Int:
			bi, _ := new(big.Int).SetString(c.ExactString(), 10)
			return &SV{C: bi}
		case constant.String:
			return &SV{V: StrLit(constant.StringVal(c)), T: types.Typ[types.String]}
		case constant.Bool:
			return &SV{V: BoolC(constant.BoolVal(c)), T: types.Typ[types.Bool]}
		}
	}
	switch {
	case isBool(t):
		return &SV{V: BoolC(constant.BoolVal(c)), T: t}
	case isString(t):
		return &SV{V: StrLit(constant.StringVal(c)), T: t}
	}
	bi, _ := new(big.Int).SetString(constant.ToInt(c).ExactString(), 10)
	if bi == nil {
		bi = new(big.Int)
	}
	if w, ok := isUnsigned(t); ok {
		return &SV{V: BVBig(bi, w), T: t}
	}
	return &SV{V: IntBig(bi), T: t}
}

func (e *SpecEnv) lookupPkgObj(pkg *types.Package, name string) (*SV, error) {
	obj := pkg.Scope().Lookup(name)
	if obj == nil {
		return nil, fmt.Errorf("unknown identifier %s", name)
	}
	switch o := obj.(type) {
	case *types.Const:
		return constToSV(o.Val(), o.Type()), nil
	case *types.Var:
		return &SV{Place: &PtrV{Kind: PGlobal, Key: "glob:" + pkgShort(pkg) + "." + name, Elem: o.Type()}, T: o.Type()}, nil
	case *types.TypeName:
		return &SV{T: o.Type(), V: typeMarker{o.Type()}}, nil
	}
	return nil, fmt.Errorf("identifier %s is not a constant, variable or type", name)
}

type typeMarker struct{ T types.Type }
type pkgMarker struct{ P *types.Package }

func (e *SpecEnv) eval(x *SX) (*SV, error) {
	switch x.K {
	case "int", "char":
		return &SV{C: x.Val}, nil
	case "bool":
		return &SV{V: BoolC(x.Name == "true"), T: types.Typ[types.Bool]}, nil
	case "str":
		return &SV{V: StrLit(x.Str), T: types.Typ[types.String]}, nil
	case "id":
		return e.evalIdent(x.Name)
	case "un":
		return e.evalUnary(x)
	case "bin":
		return e.evalBinary(x)
	case "cond":
		c, err := e.evalBool(x.A[0])
		if err != nil {
			return nil, err
		}
		a, err := e.eval(x.A[1])
		if err != nil {
			return nil, err
		}
		b, err := e.eval(x.A[2])
		if err != nil {
			return nil, err
		}
		a, b = e.unify(a, b)
		m, ok := mergeVals(c, e.value(a), e.value(b))
		if !ok {
			return nil, fmt.Errorf("branches of %s have different shapes", x)
		}
		return &SV{V: m, T: a.T}, nil
	case "quant":
		return e.evalQuant(x)
	case "sel":
		return e.evalSel(x)
	case "idx":
		return e.evalIndex(x)
	case "slice":
		return e.evalSlice(x)
	case "call":
		return e.evalCall(x)
	case "in":
		k, err := e.eval(x.A[0])
		if err != nil {
			return nil, err
		}
		m, err := e.eval(x.A[1])
		if err != nil {
			return nil, err
		}
		mt, ok := under(m.T).(*types.Map)
		if !ok {
			return nil, fmt.Errorf("'in' needs a map, got %s", m.T)
		}
		k = e.coerce(k, mt.Key())
		st := e.stateOf(m)
		mv := st.toTerm(e.value(m), m.T)
		kt := e.vc.mapKeyTerm(st, mt, e.value(k))
		// membership is read in the evaluation state; old(m) only fixes which map is meant
		return &SV{V: And(Not(Eq(mv, IntC(0))), Select(e.vc.mapDom(e.st, mt, mv), kt)), T: types.Typ[types.Bool]}, nil
	}
	return nil, fmt.Errorf("unsupported spec expression %s", x)
}

func (e *SpecEnv) evalIdent(name string) (*SV, error) {
	if v, ok := e.vars[name]; ok {
		return v, nil
	}
	if name == "nil" {
		return &SV{V: nilMarker{}}, nil
	}
	if name == "#idx" {
		v, err := e.evalIdent("rangeindex")
		if err != nil {
			return nil, err
		}
		return &SV{V: Add(e.value(v).(*Term), IntC(1)), T: types.Typ[types.Int]}, nil
	}
	// program locals (loop invariants)
	if e.fx != nil && e.fx.locals != nil {
		if p, ok := e.fx.locals[name]; ok {
			if e.cur != nil {
				if e.inPrev && p.Kind == PCell {
					if _, carried := e.st.cells[p.Cell]; carried {
						// a variable that lives across iterations: its value when this iteration started
						return &SV{V: e.st.load(p), T: p.Elem, St: e.st}, nil
					}
				}
				// inside old(): locals keep their current value, only the heap and the parameters are old
				// (inside prev(): variables declared by this iteration have no earlier value)
				return &SV{V: e.cur.load(p), T: p.Elem, St: e.st}, nil
			}
			return &SV{Place: p, T: p.Elem}, nil
		}
	}
	// ghost variables
	if g := e.vc.prog.ghost(name); g != nil {
		t, err := e.resolveGhostSort(g)
		if err != nil {
			return nil, err
		}
		ki := e.vc.reg.get("ghost:"+name, 0, t, nil)
		return &SV{V: e.st.heapVar(ki), T: ghostType{t}}, nil
	}
	if e.pkg != nil {
		if sv, err := e.lookupPkgObj(e.pkg, name); err == nil {
			return sv, nil
		}
		for _, imp := range e.pkg.Imports() {
			if imp.Name() == name {
				return &SV{V: pkgMarker{imp}}, nil
			}
		}
		if o := types.Universe.Lookup(name); o != nil {
			if tn, ok := o.(*types.TypeName); ok {
				return &SV{T: tn.Type(), V: typeMarker{tn.Type()}}, nil
			}
		}
	}
	return nil, fmt.Errorf("unknown identifier %s", name)
}

type nilMarker struct{}

// ghostType wraps an SMT sort as a pseudo Go type for ghost variables.
type ghostType struct{ S *Sort }

func (g ghostType) Underlying() types.Type { return g }
func (g ghostType) String() string         { return "ghost " + g.S.String() }

func (e *SpecEnv) resolveGhostSort(g *GhostVar) (*Sort, error) {
	srt, err := e.sortOfTypeString(g.Type)
	if err == nil {
		return srt, nil
	}
	// the type may be spelled relative to the package that declares the ghost variable
	path := g.Pkg
	if strings.HasPrefix(path, "./") || path == "." {
		path = pkgDirToPath(path)
	}
	if sp := e.vc.prog.ByPath[path]; sp != nil && sp.Pkg != nil && sp.Pkg != e.pkg {
		de := *e
		de.pkg = sp.Pkg
		if s2, err2 := de.sortOfTypeString(g.Type); err2 == nil {
			return s2, nil
		}
	}
	return nil, err
}

func (e *SpecEnv) sortOfTypeString(s string) (*Sort, error) {
	s = strings.TrimSpace(s)
	if strings.HasPrefix(s, "set[") && strings.HasSuffix(s, "]") {
		k, err := e.sortOfTypeString(s[4 : len(s)-1])
		if err != nil {
			return nil, err
		}
		return ArraySort(k, BoolSort), nil
	}
	if strings.HasPrefix(s, "map[") {
		depth := 0
		for i := 3; i < len(s); i++ {
			if s[i] == '[' {
				depth++
			} else if s[i] == ']' {
				depth--
				if depth == 0 {
					k, err := e.sortOfTypeString(s[4:i])
					if err != nil {
						return nil, err
					}
					v, err := e.sortOfTypeString(s[i+1:])
					if err != nil {
						return nil, err
					}
					return ArraySort(k, v), nil
				}
			}
		}
	}
	t, err := e.resolveType(s)
	if err != nil {
		if strings.HasPrefix(s, "*") || strings.HasPrefix(s, "chan ") {
			// a reference type that cannot be named from here: references are integers
			return IntSort, nil
		}
		return nil, err
	}
	if sc := scalarSort(t); sc != nil {
		return sc, nil
	}
	return nil, fmt.Errorf("type %s has no scalar sort", s)
}

// coerce adapts untyped constants and nil to a target type.
func (e *SpecEnv) coerce(v *SV, t types.Type) *SV {
	if _, ok := v.V.(nilMarker); ok {
		return &SV{V: zeroVal(t), T: t}
	}
	if v.C != nil && v.T == nil {
		if gt, ok := t.(ghostType); ok {
			if gt.S.Kind == SBV {
				return &SV{V: BVBig(v.C, gt.S.Width), T: t}
			}
			return &SV{V: IntBig(v.C), T: t}
		}
		if w, ok := isUnsigned(t); ok {
			return &SV{V: BVBig(v.C, w), T: t}
		}
		return &SV{V: IntBig(v.C), T: t}
	}
	return v
}

func (e *SpecEnv) unify(a, b *SV) (*SV, *SV) {
	if a.T == nil && b.T != nil {
		return e.coerce(a, b.T), b
	}
	if b.T == nil && a.T != nil {
		return a, e.coerce(b, a.T)
	}
	if a.T == nil && b.T == nil {
		it := types.Typ[types.Int]
		if _, ok := a.V.(nilMarker); ok {
			return a, b
		}
		return e.coerce(a, it), e.coerce(b, it)
	}
	return a, b
}

func (e *SpecEnv) evalUnary(x *SX) (*SV, error) {
	if x.Op == "*" {
		p, err := e.eval(x.A[0])
		if err != nil {
			return nil, err
		}
		pt, ok := under(p.T).(*types.Pointer)
		if !ok {
			return nil, fmt.Errorf("cannot dereference %s", x.A[0])
		}
		ptr := asPtr(e.value(p), pt.Elem())
		return &SV{Place: ptr, T: pt.Elem(), St: p.St}, nil
	}
	v, err := e.eval(x.A[0])
	if err != nil {
		return nil, err
	}
	switch x.Op {
	case "!":
		return &SV{V: Not(e.value(v).(*Term)), T: types.Typ[types.Bool]}, nil
	case "-":
		if v.C != nil && v.T == nil {
			return &SV{C: new(big.Int).Neg(v.C)}, nil
		}
		t := e.value(v).(*Term)
		if t.Sort.Kind == SBV {
			return &SV{V: BVNeg(t), T: v.T}, nil
		}
		return &SV{V: Neg(t), T: v.T}, nil
	case "^":
		if v.C != nil && v.T == nil {
			return &SV{C: new(big.Int).Not(v.C)}, nil
		}
		t := e.value(v).(*Term)
		if t.Sort.Kind == SBV {
			return &SV{V: BVNot(t), T: v.T}, nil
		}
		return &SV{V: Sub(Neg(t), IntC(1)), T: v.T}, nil
	}
	return nil, fmt.Errorf("unsupported unary %s", x.Op)
}

var tokOf = map[string]token.Token{
	"+": token.ADD, "-": token.SUB, "*": token.MUL, "/": token.QUO, "%": token.REM, "&": token.AND, "|": token.OR, "^": token.XOR,
	"&^": token.AND_NOT, "<<": token.SHL, ">>": token.SHR, "==": token.EQL, "!=": token.NEQ, "<": token.LSS, "<=": token.LEQ,
	">": token.GTR, ">=": token.GEQ,
}

func (e *SpecEnv) evalBinary(x *SX) (*SV, error) {
	switch x.Op {
	case "&&", "||", "==>", "<==>":
		a, err := e.evalBool(x.A[0])
		if err != nil {
			return nil, err
		}
		b, err := e.evalBool(x.A[1])
		if err != nil {
			return nil, err
		}
		var r *Term
		switch x.Op {
		case "&&":
			r = And(a, b)
		case "||":
			r = Or(a, b)
		case "==>":
			r = Implies(a, b)
		default:
			r = Iff(a, b)
		}
		return &SV{V: r, T: types.Typ[types.Bool]}, nil
	}
	a, err := e.eval(x.A[0])
	if err != nil {
		return nil, err
	}
	b, err := e.eval(x.A[1])
	if err != nil {
		return nil, err
	}
	// constant folding of untyped constants
	if a.T == nil && b.T == nil && a.C != nil && b.C != nil {
		r := new(big.Int)
		switch x.Op {
		case "+":
			return &SV{C: r.Add(a.C, b.C)}, nil
		case "-":
			return &SV{C: r.Sub(a.C, b.C)}, nil
		case "*":
			return &SV{C: r.Mul(a.C, b.C)}, nil
		case "/":
			return &SV{C: r.Quo(a.C, b.C)}, nil
		case "%":
			return &SV{C: r.Rem(a.C, b.C)}, nil
		case "|":
			return &SV{C: r.Or(a.C, b.C)}, nil
		case "&":
			return &SV{C: r.And(a.C, b.C)}, nil
		case "^":
			return &SV{C: r.Xor(a.C, b.C)}, nil
		case "&^":
			return &SV{C: r.AndNot(a.C, b.C)}, nil
		case "<<":
			return &SV{C: r.Lsh(a.C, uint(b.C.Int64()))}, nil
		case ">>":
			return &SV{C: r.Rsh(a.C, uint(b.C.Int64()))}, nil
		}
	}
	isShift := x.Op == "<<" || x.Op == ">>"
	if isShift {
		if a.T == nil {
			a = e.coerce(a, types.Typ[types.Int])
		}
		if b.T == nil {
			b = e.coerce(b, types.Typ[types.Int])
		}
	} else {
		a, b = e.unify(a, b)
	}
	op := tokOf[x.Op]
	// nil comparisons
	if _, ok := b.V.(nilMarker); ok {
		b = e.coerce(b, a.T)
	}
	if _, ok := a.V.(nilMarker); ok {
		a = e.coerce(a, b.T)
	}
	st := e.st
	ta, tb := a.T, b.T
	if gt, ok := ta.(ghostType); ok {
		ta = pseudoType(gt.S)
	}
	if gt, ok := tb.(ghostType); ok {
		tb = pseudoType(gt.S)
	}
	r := e.vc.binop(st, op, e.value(a), e.value(b), ta, tb)
	rt := a.T
	switch x.Op {
	case "==", "!=", "<", "<=", ">", ">=":
		rt = types.Typ[types.Bool]
	}
	return &SV{V: r, T: rt}, nil
}

func pseudoType(s *Sort) types.Type {
	switch s.Kind {
	case SBool:
		return types.Typ[types.Bool]
	case SInt:
		return types.Typ[types.Int]
	case SBV:
		switch s.Width {
		case 8:
			return types.Typ[types.Uint8]
		case 16:
			return types.Typ[types.Uint16]
		case 32:
			return types.Typ[types.Uint32]
		}
		return types.Typ[types.Uint64]
	}
	if s == StrSort {
		return types.Typ[types.String]
	}
	return types.Typ[types.Int]
}

func (e *SpecEnv) evalQuant(x *SX) (*SV, error) {
	saved := map[string]*SV{}
	var bound []*Term
	var guards []*Term
	for _, b := range x.Binders {
		var s *Sort
		var t types.Type
		if gs, err := e.sortOfTypeString(b.Type); err == nil {
			s = gs
		}
		if tt, err := e.resolveType(b.Type); err == nil {
			t = tt
		}
		if s == nil && t != nil {
			if sl, ok := under(t).(*types.Slice); ok {
				if es := scalarSort(sl.Elem()); es != nil {
					av := Bound(b.Name+".a", ArraySort(IntSort, es))
					lv := Bound(b.Name+".n", IntSort)
					bound = append(bound, av, lv)
					guards = append(guards, Ge(lv, IntC(0)))
					if old, ok := e.vars[b.Name]; ok {
						saved[b.Name] = old
					} else {
						saved[b.Name] = nil
					}
					e.vars[b.Name] = &SV{V: &SeqV{A: av, Len: lv}, T: t}
					continue
				}
			}
			if isString(t) {
				s = StrSort
			}
			if _, isChan := under(t).(*types.Chan); isChan {
				s = IntSort
			}
		}
		if s == nil {
			return nil, fmt.Errorf("quantified variable %s: type %s has no scalar sort", b.Name, b.Type)
		}
		if t == nil {
			t = ghostType{s}
		}
		bv := Bound(b.Name, s)
		bound = append(bound, bv)
		if old, ok := e.vars[b.Name]; ok {
			saved[b.Name] = old
		} else {
			saved[b.Name] = nil
		}
		e.vars[b.Name] = &SV{V: bv, T: t}
		switch under(t).(type) {
		case *types.Pointer, *types.Map, *types.Chan:
			guards = append(guards, Ge(bv, IntC(0)))
		}
	}
	body, err := e.evalBool(x.A[0])
	for n, v := range saved {
		if v == nil {
			delete(e.vars, n)
		} else {
			e.vars[n] = v
		}
	}
	if err != nil {
		return nil, err
	}
	var r *Term
	if x.Op == "forall" {
		r = Forall(bound, Implies(And(guards...), body))
	} else {
		r = Exists(bound, And(append(guards, body)...))
	}
	return &SV{V: r, T: types.Typ[types.Bool]}, nil
}

func (e *SpecEnv) evalSel(x *SX) (*SV, error) {
	b, err := e.eval(x.A[0])
	if err != nil {
		return nil, err
	}
	if pm, ok := b.V.(pkgMarker); ok {
		return e.lookupPkgObj(pm.P, x.Name)
	}
	t := b.T
	if tv, ok := b.V.(*TupleV); ok && len(x.Name) >= 2 && x.Name[0] == 'r' {
		// component of a multi-valued call result: f(x).r0, .r1, ...
		var i int
		if _, err := fmt.Sscanf(x.Name[1:], "%d", &i); err == nil && i < len(tv.Vs) {
			if tt, ok := b.T.(*types.Tuple); ok && i < tt.Len() {
				return &SV{V: tv.Vs[i], T: tt.At(i).Type(), St: b.St}, nil
			}
		}
	}
	if t == nil {
		return nil, fmt.Errorf("selector %s on untyped value", x.Name)
	}
	// pointer to struct: auto-deref
	if pt, ok := under(t).(*types.Pointer); ok {
		ptr := asPtr(e.value(b), pt.Elem())
		b = &SV{Place: ptr, T: pt.Elem(), St: b.St}
		t = pt.Elem()
	}
	stt, ok := under(t).(*types.Struct)
	if !ok {
		return nil, fmt.Errorf("selector %s on non-struct %s", x.Name, t)
	}
	obj, index, _ := types.LookupFieldOrMethod(t, true, e.pkgForLookup(t), x.Name)
	if obj == nil {
		return nil, fmt.Errorf("type %s has no field %s", t, x.Name)
	}
	if _, isVar := obj.(*types.Var); !isVar {
		return nil, fmt.Errorf("%s.%s is not a field", t, x.Name)
	}
	cur := b
	curT := stt
	for _, i := range index {
		f := curT.Field(i)
		if cur.Place != nil {
			cur = &SV{Place: fieldPtr(cur.Place, curT, i), T: f.Type(), St: cur.St, Guard: cur.Guard}
		} else {
			sv, ok := cur.V.(*StructV)
			if !ok {
				return nil, fmt.Errorf("selector on non-struct value")
			}
			cur = &SV{V: sv.F[i], T: f.Type(), St: cur.St}
		}
		if pt, ok := under(f.Type()).(*types.Pointer); ok && i != index[len(index)-1] {
			ptr := asPtr(e.value(cur), pt.Elem())
			cur = &SV{Place: ptr, T: pt.Elem(), St: cur.St}
		}
		if ns, ok := under(cur.T).(*types.Struct); ok {
			curT = ns
		}
	}
	return cur, nil
}

func (e *SpecEnv) pkgForLookup(t types.Type) *types.Package {
	if nt, ok := types.Unalias(t).(*types.Named); ok && nt.Obj().Pkg() != nil {
		return nt.Obj().Pkg()
	}
	return e.pkg
}

func (e *SpecEnv) evalIndex(x *SX) (*SV, error) {
	b, err := e.eval(x.A[0])
	if err != nil {
		return nil, err
	}
	i, err := e.eval(x.A[1])
	if err != nil {
		return nil, err
	}
	if gt, ok := b.T.(ghostType); ok {
		if gt.S.Kind != SArray {
			return nil, fmt.Errorf("indexing a non-map ghost value")
		}
		i = e.coerce(i, ghostType{gt.S.Idx})
		return &SV{V: Select(e.value(b).(*Term), e.refKey(i)), T: ghostType{gt.S.Elem}}, nil
	}
	st := e.stateOf(b)
	switch u := under(b.T).(type) {
	case *types.Slice:
		i = e.coerce(i, types.Typ[types.Int])
		if sq, ok := e.value(b).(*SeqV); ok {
			return &SV{V: Select(sq.A, intOf(e.value(i).(*Term))), T: u.Elem()}, nil
		}
		sv, ok := e.value(b).(*SliceV)
		if !ok {
			return nil, fmt.Errorf("indexing a non-slice value")
		}
		idx := intOf(e.value(i).(*Term))
		return &SV{Place: &PtrV{Kind: PHeap, Base: sv.Arr, Idx: Add(sv.Off, idx), Key: elemKey(u.Elem()), Elem: u.Elem()}, T: u.Elem(), St: b.St}, nil
	case *types.Basic:
		if isString(b.T) {
			i = e.coerce(i, types.Typ[types.Int])
			return &SV{V: StrAt(e.value(b).(*Term), intOf(e.value(i).(*Term))), T: types.Typ[types.Uint8]}, nil
		}
	case *types.Map:
		i = e.coerce(i, u.Key())
		m := st.toTerm(e.value(b), b.T)
		k := e.vc.mapKeyTerm(st, u, e.value(i))
		present := And(Not(Eq(m, IntC(0))), Select(e.vc.mapDom(st, u, m), k))
		return &SV{Place: e.vc.mapValPtr(u, m, k), T: u.Elem(), St: b.St, Guard: present}, nil
	case *types.Array:
		i = e.coerce(i, types.Typ[types.Int])
		if av, ok := e.value(b).(*ArrV); ok {
			return &SV{V: Select(av.A, intOf(e.value(i).(*Term))), T: u.Elem()}, nil
		}
	}
	return nil, fmt.Errorf("cannot index %s (type %v)", x.A[0], b.T)
}

// refKey turns a value used as the key of a ghost map into a term (pointers and interfaces by identity).
func (e *SpecEnv) refKey(i *SV) *Term {
	switch v := e.value(i).(type) {
	case *Term:
		return v
	case *PtrV:
		return e.stateOf(i).ptrTerm(v)
	case *IfaceV:
		return v.Data
	case *SliceV:
		return v.Arr
	}
	panic("ghost map key of unsupported shape")
}

func (e *SpecEnv) evalSlice(x *SX) (*SV, error) {
	b, err := e.eval(x.A[0])
	if err != nil {
		return nil, err
	}
	var lo, hi *Term
	if x.A[1] != nil {
		v, err := e.eval(x.A[1])
		if err != nil {
			return nil, err
		}
		lo = intOf(e.value(e.coerce(v, types.Typ[types.Int])).(*Term))
	} else {
		lo = IntC(0)
	}
	if x.A[2] != nil {
		v, err := e.eval(x.A[2])
		if err != nil {
			return nil, err
		}
		hi = intOf(e.value(e.coerce(v, types.Typ[types.Int])).(*Term))
	}
	switch bv := e.value(b).(type) {
	case *SliceV:
		if hi == nil {
			hi = bv.Len
		}
		return &SV{V: &SliceV{bv.Arr, Add(bv.Off, lo), Sub(hi, lo), Sub(bv.Cap, lo)}, T: b.T, St: b.St}, nil
	case *Term:
		if bv.Sort == StrSort {
			if hi == nil {
				hi = StrLen(bv)
			}
			return &SV{V: e.vc.StrSub(bv, lo, hi), T: b.T}, nil
		}
	}
	return nil, fmt.Errorf("cannot slice %s", x.A[0])
}

func (e *SpecEnv) evalCall(x *SX) (*SV, error) {
	fn := x.A[0]
	args := x.A[1:]
	if fn.K == "id" {
		switch fn.Name {
		case "old":
			if len(args) != 1 {
				return nil, fmt.Errorf("old takes one argument")
			}
			oe := *e
			oe.st = e.old
			if oe.cur == nil {
				oe.cur = e.st
			}
			// parameters mean their entry values inside old()
			oe.vars = map[string]*SV{}
			for n, v := range e.vars {
				oe.vars[n] = v
			}
			if e.fx != nil && e.fx.top {
				for n, v := range e.vc.params {
					if _, shadow := oe.vars[n]; !shadow {
						oe.vars[n] = v
					}
				}
			}
			v, err := oe.eval(args[0])
			if err != nil {
				return nil, err
			}
			r := *v
			if r.St == nil {
				r.St = e.old
			}
			if r.Place != nil && r.Place.Kind == PCell {
				// locals: materialise now
				r = SV{V: e.old.load(r.Place), T: r.T, St: e.old}
			}
			return &r, nil
		case "prev":
			if e.prev == nil || len(args) != 1 {
				return nil, fmt.Errorf("prev() is only meaningful in an `iterates` clause")
			}
			pe := *e
			pe.st = e.prev
			// like old(): program locals (the loop variables of this iteration) keep their current values, only
			// the heap is the one at the start of the iteration
			pe.cur = e.st
			pe.inPrev = true
			pe.prev = nil
			v, err := pe.eval(args[0])
			if err != nil {
				return nil, err
			}
			r := *v
			if r.Place != nil {
				r = SV{V: pe.value(v), T: v.T, St: e.prev}
			} else if r.St == nil {
				r.St = e.prev
			}
			return &r, nil
		case "len":
			v, err := e.eval(args[0])
			if err != nil {
				return nil, err
			}
			if gt, ok := v.T.(ghostType); ok {
				_ = gt
				return nil, fmt.Errorf("len of ghost value")
			}
			return &SV{V: e.vc.lenOf(e.stateOf(v), e.value(v), v.T), T: types.Typ[types.Int]}, nil
		case "cap":
			v, err := e.eval(args[0])
			if err != nil {
				return nil, err
			}
			if sv, ok := e.value(v).(*SliceV); ok {
				return &SV{V: sv.Cap, T: types.Typ[types.Int]}, nil
			}
			return nil, fmt.Errorf("cap of non-slice")
		case "string":
			v, err := e.eval(args[0])
			if err != nil {
				return nil, err
			}
			st := e.stateOf(v)
			return &SV{V: e.vc.convert(st, e.value(v), v.T, types.Typ[types.String]), T: types.Typ[types.String]}, nil
		case "int":
			v, err := e.eval(args[0])
			if err != nil {
				return nil, err
			}
			if v.T == nil {
				return e.coerce(v, types.Typ[types.Int]), nil
			}
			return &SV{V: intOf(e.value(v).(*Term)), T: types.Typ[types.Int]}, nil
		case "isnil":
			v, err := e.eval(args[0])
			if err != nil {
				return nil, err
			}
			return &SV{V: e.isNil(v), T: types.Typ[types.Bool]}, nil
		case "hasPrefix":
			a, err := e.eval(args[0])
			if err != nil {
				return nil, err
			}
			b, err := e.eval(args[1])
			if err != nil {
				return nil, err
			}
			return &SV{V: e.vc.hasPrefix(e.value(a).(*Term), e.value(b).(*Term)), T: types.Typ[types.Bool]}, nil
		case "ref":
			// ref(x): the identity (reference) of a pointer or interface value, as used to key ghost maps
			v, err := e.eval(args[0])
			if err != nil {
				return nil, err
			}
			return &SV{V: e.refKey(v), T: ghostType{IntSort}}, nil
		case "le16", "le32", "le64":
			// leNN(s, off): the little-endian unsigned integer stored in s[off : off+NN/8]
			if len(args) != 2 {
				return nil, fmt.Errorf("%s(slice, offset)", fn.Name)
			}
			sv, err := e.eval(args[0])
			if err != nil {
				return nil, err
			}
			ov, err := e.eval(args[1])
			if err != nil {
				return nil, err
			}
			sl, ok := e.value(sv).(*SliceV)
			if !ok {
				return nil, fmt.Errorf("%s needs a byte slice", fn.Name)
			}
			off := intOf(e.value(e.coerce(ov, types.Typ[types.Int])).(*Term))
			nb := map[string]int{"le16": 2, "le32": 4, "le64": 8}[fn.Name]
			st := e.stateOf(sv)
			_, h := e.vc.byteContentIn(st)
			c := Select(h, sl.Arr)
			v := leValue(func(k int) *Term { return Select(c, Add(Add(sl.Off, off), IntC(int64(k)))) }, nb)
			rt := map[string]types.Type{"le16": types.Typ[types.Uint16], "le32": types.Typ[types.Uint32], "le64": types.Typ[types.Uint64]}[fn.Name]
			return &SV{V: v, T: rt}, nil
		case "macMatches":
			// macMatches("sha256", key, data, sig): sig holds exactly HMAC-alg(key, data); data must have constant length
			if len(args) != 4 || args[0].K != "str" {
				return nil, fmt.Errorf("macMatches(\"alg\", key, data, sig)")
			}
			var sls [3]*SliceV
			var sts [3]*State
			for i := 0; i < 3; i++ {
				v, err := e.eval(args[i+1])
				if err != nil {
					return nil, err
				}
				sl, ok := e.value(v).(*SliceV)
				if !ok {
					return nil, fmt.Errorf("macMatches needs byte slices")
				}
				sls[i], sts[i] = sl, e.stateOf(v)
			}
			size := map[string]int{"sha256": 32, "md5": 16, "sha1": 20}[args[0].Str]
			if size == 0 || !sls[1].Len.IsConst || !sls[1].Len.Int.IsInt64() || sls[1].Len.Int.Int64() > 256 {
				return nil, fmt.Errorf("macMatches: unknown algorithm or data of non-constant length")
			}
			_, hd := e.vc.byteContentIn(sts[1])
			dc := Select(hd, sls[1].Arr)
			var msg []*Term
			for i := int64(0); i < sls[1].Len.Int.Int64(); i++ {
				msg = append(msg, Select(dc, Add(sls[1].Off, IntC(i))))
			}
			mac := macResult(e.vc, sts[0], args[0].Str, sls[0], msg)
			_, hs := e.vc.byteContentIn(sts[2])
			sc := Select(hs, sls[2].Arr)
			conj := []*Term{Eq(sls[2].Len, IntC(int64(size)))}
			for i := 0; i < size; i++ {
				conj = append(conj, Eq(Select(sc, Add(sls[2].Off, IntC(int64(i)))), Select(mac, IntC(int64(i)))))
			}
			return &SV{V: And(conj...), T: types.Typ[types.Bool]}, nil
		case "held", "rheld":
			// held(x.mu): the mutex is write-locked by the current goroutine; rheld: read- or write-locked
			pl, _, err := e.evalLoc(args[0])
			if err != nil {
				return nil, err
			}
			if pl.Kind != PHeap || pl.Base == nil {
				return nil, fmt.Errorf("held() needs a mutex field of a heap object")
			}
			id := pl.Key + "@" + termKey(pl.Base)
			h := e.st.lockState("w:" + id)
			if fn.Name == "rheld" {
				h = Or(h, e.st.lockState("r:"+id))
			}
			return &SV{V: h, T: types.Typ[types.Bool]}, nil
		case "sentTotal":
			// sentTotal(): number of values placed on any channel so far (ghost)
			ki := e.vc.reg.get("ghost:sentTotal", 0, IntSort, nil)
			return &SV{V: e.st.heapVar(ki), T: types.Typ[types.Int]}, nil
		case "now":
			// now(): the ghost clock (nanoseconds), i.e. the value of the latest time.Now() in the evaluation state
			ki := e.vc.reg.get("ghost:clock", 0, IntSort, nil)
			return &SV{V: e.st.heapVar(ki), T: types.Typ[types.Int]}, nil
		case "unixNanos":
			v, err := e.eval(args[0])
			if err != nil {
				return nil, err
			}
			sec := intOf(e.value(v).(*Term))
			return &SV{V: Add(Mul(sec, IntC(1000000000)), IntBig(unixEpochNanos)), T: types.Typ[types.Int]}, nil
		case "last":
			// last(ch): the value most recently placed on channel ch (ghost)
			v, err := e.eval(args[0])
			if err != nil {
				return nil, err
			}
			ct, ok := under(v.T).(*types.Chan)
			if !ok {
				return nil, fmt.Errorf("last() needs a channel")
			}
			// (the record is read in the evaluation state; the channel expression keeps its own, as for sent())
			st := e.stateOf(v)
			key := "ghost:last<" + chanKey(v.T) + ">"
			return &SV{V: e.st.loadKey(PHeap, key, st.toTerm(e.value(v), v.T), nil, ct.Elem(), nil), T: ct.Elem()}, nil
		case "fresh":
			// fresh(x): the object x refers to (pointer, slice backing array) was allocated during this call
			v, err := e.eval(args[0])
			if err != nil {
				return nil, err
			}
			return &SV{V: Ge(e.refKey(v), e.vc.A0), T: types.Typ[types.Bool]}, nil
		case "dynptr":
			// dynptr(x, T): the *T held by the interface value x (the code under contract asserts x.(*T) itself; the
			// spec only names the pointer). Nil when x holds a value of another type.
			if len(args) != 2 {
				return nil, fmt.Errorf("dynptr(interface value, struct type)")
			}
			v, err := e.eval(args[0])
			if err != nil {
				return nil, err
			}
			tv, err := e.eval(args[1])
			if err != nil {
				return nil, err
			}
			tm, ok := tv.V.(typeMarker)
			if !ok {
				return nil, fmt.Errorf("dynptr: second argument must be a type")
			}
			pt := types.NewPointer(tm.T)
			if _, isIface := under(v.T).(*types.Interface); !isIface {
				return nil, fmt.Errorf("dynptr needs an interface value")
			}
			iv := e.stateOf(v).toIface(e.value(v))
			return &SV{V: Ite(Eq(iv.Tag, e.vc.typeTag(pt)), iv.Data, IntC(0)), T: pt}, nil
		case "dynval":
			// dynval(x, T): the value of integer (or named integer) type T boxed in the interface value x; 0 when x
			// holds a value of another type. (Integers are boxed as themselves, see makeIface.)
			if len(args) != 2 {
				return nil, fmt.Errorf("dynval(interface value, integer type)")
			}
			v, err := e.eval(args[0])
			if err != nil {
				return nil, err
			}
			tv, err := e.eval(args[1])
			if err != nil {
				return nil, err
			}
			tm, ok := tv.V.(typeMarker)
			if !ok {
				return nil, fmt.Errorf("dynval: second argument must be a type")
			}
			if b, isBasic := under(tm.T).(*types.Basic); !isBasic || b.Info()&types.IsInteger == 0 {
				return nil, fmt.Errorf("dynval: only integer types are supported")
			}
			if _, isIface := under(v.T).(*types.Interface); !isIface {
				return nil, fmt.Errorf("dynval needs an interface value")
			}
			iv := e.stateOf(v).toIface(e.value(v))
			if s := scalarSort(tm.T); s != nil && s.Kind == SBV {
				return &SV{V: Ite(Eq(iv.Tag, e.vc.typeTag(tm.T)), Int2BV(iv.Data, s.Width), BVC(0, s.Width)), T: tm.T}, nil
			}
			return &SV{V: Ite(Eq(iv.Tag, e.vc.typeTag(tm.T)), iv.Data, IntC(0)), T: tm.T}, nil
		case "spawnedTotal":
			// spawnedTotal(): number of go statements executed so far (ghost)
			ki := e.vc.reg.get("ghost:spawnedTotal", 0, IntSort, nil)
			return &SV{V: e.st.heapVar(ki), T: types.Typ[types.Int]}, nil
		case "called":
			// called("f"): number of direct calls of function (or method) f made so far by the function under contract (ghost)
			if len(args) != 1 || args[0].K != "str" {
				return nil, fmt.Errorf("called() needs a function name in quotes")
			}
			ki := e.vc.reg.get("ghost:called:"+args[0].Str, 0, IntSort, nil)
			return &SV{V: e.st.heapVar(ki), T: types.Typ[types.Int]}, nil
		case "spawned":
			// spawned("f"): number of go statements that started function f so far (ghost)
			if len(args) != 1 || args[0].K != "str" {
				return nil, fmt.Errorf("spawned() needs a function name in quotes")
			}
			name := args[0].Str
			ki := e.vc.reg.get("ghost:spawned:"+name, 0, IntSort, nil)
			return &SV{V: e.st.heapVar(ki), T: types.Typ[types.Int]}, nil
		case "taken", "lastTaken":
			// taken(ch): number of values received from channel ch so far; lastTaken(ch): the latest of them (ghost)
			v, err := e.eval(args[0])
			if err != nil {
				return nil, err
			}
			ct, ok := under(v.T).(*types.Chan)
			if !ok {
				return nil, fmt.Errorf("%s() needs a channel", fn.Name)
			}
			st := e.stateOf(v)
			cht := st.toTerm(e.value(v), v.T)
			// (as for sent(): the counter is read in the evaluation state, the channel expression keeps its own)
			if fn.Name == "taken" {
				ki := e.vc.reg.get("ghost:taken<"+chanKey(v.T)+">", 1, IntSort, nil)
				return &SV{V: Select(e.st.heapVar(ki), cht), T: types.Typ[types.Int]}, nil
			}
			s := scalarSort(ct.Elem())
			if s == nil {
				return nil, fmt.Errorf("lastTaken() needs a channel of scalar elements")
			}
			kl := e.vc.reg.get("ghost:lasttaken<"+chanKey(v.T)+">", 1, s, nil)
			return &SV{V: Select(e.st.heapVar(kl), cht), T: ct.Elem()}, nil
		case "sent":
			// sent(ch): number of messages placed on channel ch so far (ghost)
			v, err := e.eval(args[0])
			if err != nil {
				return nil, err
			}
			// the count is read in the evaluation state; only the channel expression keeps its own state, so that
			// sent(old(x.ch)) is "what has been sent by now on the channel x.ch denoted at entry"
			st := e.stateOf(v)
			key := "ghost:sent<" + chanKey(v.T) + ">"
			ki := e.vc.reg.get(key, 1, IntSort, nil)
			return &SV{V: Select(e.st.heapVar(ki), st.toTerm(e.value(v), v.T)), T: types.Typ[types.Int]}, nil
		}
		if sf, ok := e.vc.prog.CS.SpecFuncs[fn.Name]; ok {
			return e.applySpecFunc(sf, args)
		}
	}
	// call of a real Go function or method (executed symbolically on a scratch copy of the state)
	if r, ok, err := e.callGo(fn, args); ok {
		return r, err
	}
	// type conversion T(x)
	tv, err := e.eval(fn)
	if err == nil {
		if tm, ok := tv.V.(typeMarker); ok && len(args) == 1 {
			v, err := e.eval(args[0])
			if err != nil {
				return nil, err
			}
			if v.T == nil {
				return e.coerce(v, tm.T), nil
			}
			st := e.stateOf(v)
			return &SV{V: e.vc.convert(st, e.value(v), v.T, tm.T), T: tm.T}, nil
		}
	}
	return nil, fmt.Errorf("unknown function in spec: %s", fn)
}

func (e *SpecEnv) isNil(v *SV) *Term {
	switch x := e.value(v).(type) {
	case *IfaceV:
		return Eq(x.Tag, IntC(0))
	case *SliceV:
		return Eq(x.Arr, IntC(0))
	case *Term:
		return Eq(x, IntC(0))
	case *PtrV:
		if x.Kind == PHeap {
			return Eq(x.Base, IntC(0))
		}
		return False()
	}
	return False()
}

func (e *SpecEnv) applySpecFunc(sf *SpecFunc, args []*SX) (*SV, error) {
	if len(args) != len(sf.Params) {
		return nil, fmt.Errorf("spec func %s: %d arguments, want %d", sf.Name, len(args), len(sf.Params))
	}
	if e.depth > 40 {
		return nil, fmt.Errorf("spec func %s: recursion too deep", sf.Name)
	}
	fenv := &SpecEnv{vc: e.vc, st: e.st, old: e.old, vars: map[string]*SV{}, pkg: e.pkg, depth: e.depth + 1, cur: e.cur}
	if p := e.vc.prog.TypesPkg[pkgDirToPath(sf.Pkg)]; p != nil && sf.Pkg != "" {
		fenv.pkg = p
	}
	var argVals []*SV
	for i, a := range args {
		v, err := e.eval(a)
		if err != nil {
			return nil, err
		}
		pt, err := fenv.paramType(sf.PTypes[i])
		if err != nil {
			if sf.Body != nil {
				return nil, err
			}
			// uninterpreted function over a type that cannot be named from this package: the argument is used as is
		} else {
			v = e.coerce(v, pt)
			if v.T == nil {
				v = &SV{V: v.V, T: pt}
			}
		}
		// freeze place-valued locals
		fenv.vars[sf.Params[i]] = v
		argVals = append(argVals, v)
	}
	if sf.Body == nil {
		// uninterpreted
		rs, err := fenv.sortOfTypeString(sf.RType)
		if err != nil {
			return nil, err
		}
		var ts []*Term
		for _, v := range argVals {
			switch t := e.value(v).(type) {
			case *Term:
				ts = append(ts, t)
			case *IfaceV:
				ts = append(ts, t.Tag, t.Data)
			case *PtrV:
				ts = append(ts, e.stateOf(v).ptrTerm(t))
			default:
				return nil, fmt.Errorf("uninterpreted spec func %s needs scalar, pointer or interface arguments", sf.Name)
			}
		}
		rt, _ := fenv.paramType(sf.RType)
		return &SV{V: App("spec:"+sf.Name, rs, ts...), T: rt}, nil
	}
	r, err := fenv.eval(sf.Body)
	if err != nil {
		return nil, fmt.Errorf("in spec func %s: %v", sf.Name, err)
	}
	if rt, err2 := fenv.paramType(sf.RType); err2 == nil {
		r = e.coerce(r, rt)
		if r.T == nil {
			r = &SV{V: r.V, T: rt}
		}
	}
	return r, nil
}

func (e *SpecEnv) paramType(s string) (types.Type, error) {
	if t, err := e.resolveType(s); err == nil {
		return t, nil
	}
	srt, err := e.sortOfTypeString(s)
	if err != nil {
		return nil, err
	}
	return ghostType{srt}, nil
}

// evalLoc evaluates a modifies item to a place; all=true means every object's instance of the key prefix.
func (e *SpecEnv) evalLoc(x *SX) (p *PtrV, all bool, err error) {
	defer func() {
		if r := recover(); r != nil {
			err = fmt.Errorf("%v", r)
		}
	}()
	// heap("key"): every location of a heap key (for backing arrays that have no name in the function's scope)
	if x.K == "call" && x.A[0].K == "id" && x.A[0].Name == "heap" && len(x.A) == 2 && x.A[1].K == "str" {
		return &PtrV{Kind: PHeap, Key: x.A[1].Str}, true, nil
	}
	// ghost map element or whole ghost map
	if x.K == "idx" && x.A[0].K == "id" {
		if g := e.vc.prog.ghost(x.A[0].Name); g != nil {
			srt, err := e.resolveGhostSort(g)
			if err != nil {
				return nil, false, err
			}
			e.vc.reg.get("ghost:"+g.Name, 0, srt, nil)
			if x.A[1].K == "id" && x.A[1].Name == "#all" {
				return &PtrV{Kind: PGlobal, Key: "ghost:" + g.Name, Elem: ghostType{srt}}, true, nil
			}
			k, err := e.eval(x.A[1])
			if err != nil {
				return nil, false, err
			}
			k = e.coerce(k, ghostType{srt.Idx})
			return &PtrV{Kind: PGlobal, Key: "ghost:" + g.Name, Idx: e.refKey(k), Elem: ghostType{srt.Elem}}, false, nil
		}
	}
	if x.K == "id" {
		if g := e.vc.prog.ghost(x.Name); g != nil {
			srt, err := e.resolveGhostSort(g)
			if err != nil {
				return nil, false, err
			}
			e.vc.reg.get("ghost:"+g.Name, 0, srt, nil)
			return &PtrV{Kind: PGlobal, Key: "ghost:" + g.Name, Elem: ghostType{srt}}, true, nil
		}
	}
	// *x where x is an interface holding a pointer: the pointee
	if x.K == "un" && x.Op == "*" {
		if v, err := e.eval(x.A[0]); err == nil && v.T != nil {
			if _, isIface := under(v.T).(*types.Interface); isIface {
				if iv, ok := e.value(v).(*IfaceV); ok {
					if bt, ok := e.vc.boxedType[iv.Data]; ok {
						if pt, ok := under(bt).(*types.Pointer); ok {
							if bv, ok := e.vc.boxed[iv.Data]; ok {
								return asPtr(bv, pt.Elem()), false, nil
							}
							return asPtr(iv.Data, pt.Elem()), false, nil
						}
						// not a pointer: nothing can be written through it
						return &PtrV{Kind: PCell, Cell: -1, Elem: bt}, false, nil
					}
				}
				return &PtrV{Kind: PHeap, Key: "*"}, true, nil
			}
		}
	}
	// x[#all] or x[#all].f
	if x.K == "idx" && x.A[1].K == "id" && x.A[1].Name == "#all" {
		b, err := e.eval(x.A[0])
		if err != nil {
			return nil, false, err
		}
		switch u := under(b.T).(type) {
		case *types.Slice:
			sv := e.value(b).(*SliceV)
			// whole backing array: havoc as a key-level wildcard restricted to this array is not expressible
			// with one store; use the array reference with a nil index
			return &PtrV{Kind: PHeap, Base: sv.Arr, Key: elemKey(u.Elem()), Elem: u.Elem(), Idx: nil}, true, nil
		case *types.Map:
			return &PtrV{Kind: PHeap, Key: mapKey(u), Elem: u.Elem()}, true, nil
		}
		return nil, false, fmt.Errorf("[*] on unsupported type")
	}
	if x.K == "sel" && x.A[0].K == "idx" && x.A[0].A[1].K == "id" && x.A[0].A[1].Name == "#all" {
		inner, all, err := e.evalLoc(x.A[0])
		if err != nil {
			return nil, false, err
		}
		np := *inner
		np.Key = inner.Key + "." + x.Name
		return &np, all, nil
	}
	v, err := e.eval(x)
	if err != nil {
		return nil, false, err
	}
	if v.Place == nil {
		return nil, false, fmt.Errorf("modifies item %s is not a location", x)
	}
	return v.Place, false, nil
}


// callGo evaluates f(args) or x.m(args) where f/m is a function of the repository: the callee's contract is
// applied if it has one, otherwise its body is executed symbolically. Effects are confined to a copy of the state.
func (e *SpecEnv) callGo(fn *SX, args []*SX) (*SV, bool, error) {
	var obj *types.Func
	var recv *SV
	switch fn.K {
	case "id":
		if _, shadow := e.vars[fn.Name]; shadow || e.pkg == nil {
			return nil, false, nil
		}
		if o, ok := e.pkg.Scope().Lookup(fn.Name).(*types.Func); ok {
			obj = o
		}
	case "sel":
		base, err := e.eval(fn.A[0])
		if err != nil {
			return nil, false, nil
		}
		if pm, ok := base.V.(pkgMarker); ok {
			if o, ok := pm.P.Scope().Lookup(fn.Name).(*types.Func); ok {
				obj = o
			}
			break
		}
		if base.T == nil {
			return nil, false, nil
		}
		o, _, _ := types.LookupFieldOrMethod(base.T, true, e.pkgForLookup(base.T), fn.Name)
		if f, ok := o.(*types.Func); ok {
			obj = f
			recv = base
		}
	}
	if obj == nil {
		return nil, false, nil
	}
	sfn := e.vc.prog.SSA.FuncValue(obj)
	if sfn == nil {
		return nil, true, fmt.Errorf("no SSA for function %s", obj.FullName())
	}
	sig := obj.Type().(*types.Signature)
	st := e.st.clone()
	st.defers = nil
	var vals []Val
	if recv != nil {
		rv := e.value(recv)
		rt := sig.Recv().Type()
		_, wantPtr := under(rt).(*types.Pointer)
		_, havePtr := under(recv.T).(*types.Pointer)
		switch {
		case wantPtr && !havePtr:
			if recv.Place != nil {
				rv = recv.Place
			} else {
				ref := e.vc.freshRef()
				st.storeKey(PHeap, typeKey(recv.T), ref, nil, recv.T, rv)
				rv = &PtrV{Kind: PHeap, Base: ref, Key: typeKey(recv.T), Elem: recv.T}
			}
		case !wantPtr && havePtr:
			rv = st.load(asPtr(rv, under(recv.T).(*types.Pointer).Elem()))
		}
		vals = append(vals, rv)
	}
	if len(args) != sig.Params().Len() {
		return nil, true, fmt.Errorf("call of %s with %d arguments, want %d", obj.Name(), len(args), sig.Params().Len())
	}
	for i, a := range args {
		v, err := e.eval(a)
		if err != nil {
			return nil, true, err
		}
		pt := sig.Params().At(i).Type()
		v = e.coerce(v, pt)
		val := e.value(v)
		if _, isIface := under(pt).(*types.Interface); isIface {
			if _, already := val.(*IfaceV); !already && v.T != nil {
				val = e.vc.makeIface(st, val, v.T)
			}
		}
		if sq, ok := val.(*SeqV); ok {
			// a quantified sequence passed to real code: materialise it as a fresh backing array
			ref := e.vc.freshRef()
			et := under(pt).(*types.Slice).Elem()
			ki := e.vc.reg.get(elemKey(et), 2, scalarSort(et), IntSort)
			st.heap[ki.Name] = Store(st.heapVar(ki), ref, sq.A)
			val = &SliceV{ref, IntC(0), sq.Len, sq.Len}
		}
		vals = append(vals, val)
	}
	var rt types.Type = sig.Results()
	if sig.Results().Len() == 1 {
		rt = sig.Results().At(0).Type()
	}
	fx := e.fx
	if fx == nil {
		fx = &FuncCtx{fn: sfn}
	}
	savedSafe := e.vc.safe
	e.vc.safe = false
	var res Val
	fcx := e.vc.prog.ContractForFunc(sfn)
	if len(sfn.Blocks) > 0 && (fcx == nil || fcx.Flags["inline"]) && len(e.vc.inlineStk) < maxInlineDepth {
		// functions named in a specification are executed, not abstracted
		saved := e.vc.inlineLimit
		e.vc.inlineLimit = 400
		res = e.vc.inline(fx, st, sfn, vals, nil, rt)
		e.vc.inlineLimit = saved
		if fcx != nil {
			e.vc.assumeAfterInline(st, fcx, sfn.Signature, vals, res)
		}
	} else {
		res = e.vc.callFunction(fx, st, sfn, vals, nil, rt, nil)
	}
	e.vc.safe = savedSafe
	if res == nil {
		return nil, true, fmt.Errorf("%s returns no value", obj.Name())
	}
	return &SV{V: res, T: rt, St: st}, true, nil
}
