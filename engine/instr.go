package main

import (
	"fmt"
	"go/token"
	"go/types"
	"math/big"

	"golang.org/x/tools/go/ssa"
)

func (st *State) assign(o *State) {
	st.pc, st.cells, st.heap, st.defers, st.taint, st.held, st.xregs = o.pc, o.cells, o.heap, o.defers, o.taint, o.held, o.xregs
}

// check emits a safety obligation in safe functions and an assumption otherwise.
func (vc *VC) check(fx *FuncCtx, st *State, cond *Term, what string, pos token.Pos) {
	if cond.IsConst && cond.B {
		return
	}
	if vc.safe {
		name := "safe:" + what + "@" + vc.relPos(fx, pos)
		vc.oblige(st, name, "safety", cond, tagsOf(vc.fc), what+" at "+vc.posStr(pos))
	} else {
		vc.assume(st, cond)
	}
}

// relPos names a site without absolute line numbers: function-relative ordinal of the check.
func (vc *VC) relPos(fx *FuncCtx, pos token.Pos) string {
	vc.callSeq["$site:"+funcShort(fx.fn)]++
	return fmt.Sprintf("%s.%d", funcShort(fx.fn), vc.callSeq["$site:"+funcShort(fx.fn)])
}

func (vc *VC) execInstr(fx *FuncCtx, in ssa.Instruction, st *State, fr *Frame) {
	switch x := in.(type) {
	case *ssa.Alloc:
		elem := x.Type().(*types.Pointer).Elem()
		if !x.Heap {
			vc.nextCell++
			id := vc.nextCell
			st.cells[id] = zeroVal(elem)
			p := &PtrV{Kind: PCell, Cell: id, Elem: elem}
			if vc.cellAlloc == nil {
				vc.cellAlloc = map[int]*ssa.Alloc{}
			}
			vc.cellAlloc[id] = x
			fr.regs[x] = p
			if x.Comment != "" && fx.locals != nil {
				fx.locals[x.Comment] = p
			}
			return
		}
		ref := vc.freshRef()
		var p *PtrV
		if at, ok := under(elem).(*types.Array); ok {
			p = &PtrV{Kind: PHeap, Base: ref, Key: elemKey(at.Elem()), Elem: elem}
			vc.zeroArray(st, at.Elem(), ref)
			vc.noteLocal(ref, elemKey(at.Elem()))
		} else {
			p = &PtrV{Kind: PHeap, Base: ref, Key: typeKey(elem), Elem: elem}
			st.storeKey(PHeap, p.Key, ref, nil, elem, zeroVal(elem))
			vc.noteLocal(ref, typeKey(elem))
		}
		fr.regs[x] = p
		if x.Comment != "" && fx.locals != nil {
			fx.locals[x.Comment] = p
		}
	case *ssa.Store:
		elem := x.Addr.Type().Underlying().(*types.Pointer).Elem()
		p := asPtr(vc.val(fx, fr, x.Addr), elem)
		vc.nilCheck(fx, st, p, x.Pos())
		vc.lockCheck(fx, st, p, true, x.Pos())
		v := vc.val(fx, fr, x.Val)
		if _, isIface := under(elem).(*types.Interface); isIface {
			v = st.toIface(v)
		}
		st.store(p, v)
		if al, ok := x.Addr.(*ssa.Alloc); ok && al.Heap && p.Kind == PHeap && p.Idx == nil && len(p.Alts) == 0 && writeOnce(al) {
			// a local that is captured by closures and assigned exactly once (at its declaration): whatever the
			// closures and goroutines do, it keeps that value
			if vc.frozen == nil {
				vc.frozen = map[*Term]Val{}
			}
			vc.frozen[p.Base] = v
		}
	case *ssa.UnOp:
		fr.regs[x] = vc.unop(fx, x, st, fr)
	case *ssa.BinOp:
		r := vc.binop(st, x.Op, vc.val(fx, fr, x.X), vc.val(fx, fr, x.Y), x.X.Type(), x.Y.Type())
		fr.regs[x] = r
		if vc.nooverflow && (x.Op == token.ADD || x.Op == token.SUB || x.Op == token.MUL) {
			if rt, ok := r.(*Term); ok && rt.Sort.Kind == SInt && !rt.IsConst {
				if b, isB := under(x.Type()).(*types.Basic); isB && b.Info()&types.IsInteger != 0 && b.Info()&types.IsUnsigned == 0 {
					bits := 64
					switch b.Kind() {
					case types.Int32:
						bits = 32
					case types.Int16:
						bits = 16
					case types.Int8:
						bits = 8
					}
					lo := new(big.Int).Neg(new(big.Int).Lsh(big.NewInt(1), uint(bits-1)))
					hi := new(big.Int).Sub(new(big.Int).Lsh(big.NewInt(1), uint(bits-1)), big.NewInt(1))
					vc.check(fx, st, And(Le(IntBig(lo), rt), Le(rt, IntBig(hi))), "integer overflow", x.Pos())
				}
			}
		}
	case *ssa.FieldAddr:
		stt := x.X.Type().Underlying().(*types.Pointer).Elem()
		p := asPtr(vc.val(fx, fr, x.X), stt)
		vc.nilCheck(fx, st, p, x.Pos())
		fr.regs[x] = fieldPtr(p, under(stt).(*types.Struct), x.Field)
	case *ssa.Field:
		sv, ok := vc.val(fx, fr, x.X).(*StructV)
		if !ok {
			fv, _ := vc.freshVal("field", x.Type())
			fr.regs[x] = fv
			st.setTaint("field of non-struct value")
			return
		}
		fr.regs[x] = sv.F[x.Field]
	case *ssa.IndexAddr:
		fr.regs[x] = vc.indexAddr(fx, x, st, fr)
	case *ssa.Index:
		fr.regs[x] = vc.indexVal(fx, x, st, fr)
	case *ssa.Lookup:
		fr.regs[x] = vc.lookup(fx, x, st, fr)
	case *ssa.Slice:
		fr.regs[x] = vc.sliceOp(fx, x, st, fr)
	case *ssa.MakeSlice:
		et := under(x.Type()).(*types.Slice).Elem()
		ref := vc.freshRef()
		vc.zeroArray(st, et, ref)
		vc.noteLocal(ref, elemKey(et))
		ln := vc.val(fx, fr, x.Len).(*Term)
		cp := vc.val(fx, fr, x.Cap).(*Term)
		ln, cp = intOf(ln), intOf(cp)
		vc.check(fx, st, And(Ge(ln, IntC(0)), Le(ln, cp)), "makeslice: len out of range", x.Pos())
		fr.regs[x] = &SliceV{ref, IntC(0), ln, cp}
	case *ssa.MakeMap:
		mt := under(x.Type()).(*types.Map)
		ref := vc.freshRef()
		vc.initMap(st, mt, ref)
		vc.noteLocal(ref, mapKey(mt))
		fr.regs[x] = ref
	case *ssa.MakeChan:
		fr.regs[x] = vc.freshRef()
	case *ssa.MakeInterface:
		fr.regs[x] = vc.makeIface(st, vc.val(fx, fr, x.X), x.X.Type())
	case *ssa.MakeClosure:
		var bound []Val
		for _, b := range x.Bindings {
			bound = append(bound, vc.val(fx, fr, b))
		}
		fr.regs[x] = &FuncV{Fn: x.Fn.(*ssa.Function), Bound: bound}
	case *ssa.ChangeInterface:
		fr.regs[x] = vc.val(fx, fr, x.X)
	case *ssa.ChangeType:
		fr.regs[x] = vc.val(fx, fr, x.X)
	case *ssa.Convert:
		fr.regs[x] = vc.convert(st, vc.val(fx, fr, x.X), x.X.Type(), x.Type())
	case *ssa.TypeAssert:
		fr.regs[x] = vc.typeAssert(fx, x, st, fr)
	case *ssa.Extract:
		tv, ok := vc.val(fx, fr, x.Tuple).(*TupleV)
		if !ok || x.Index >= len(tv.Vs) {
			fv, _ := vc.freshVal("extract", x.Type())
			fr.regs[x] = fv
			return
		}
		fr.regs[x] = tv.Vs[x.Index]
	case *ssa.Call:
		r := vc.execCall(fx, fr, st, &x.Call, x, x.Type())
		fr.regs[x] = r
	case *ssa.Defer:
		var args []Val
		for _, a := range x.Call.Args {
			args = append(args, vc.val(fx, fr, a))
		}
		vc.deferSeq++
		st.defers = append(st.defers, deferEntry{ID: vc.deferSeq, Guard: True(), Instr: x, Args: args, Fn: vc.calleeVal(fx, fr, &x.Call)})
	case *ssa.RunDefers:
		vc.runDefers(fx, fr, st)
	case *ssa.Go:
		vc.goStmt(fx, fr, st, x)
	case *ssa.Send:
		vc.send(fx, fr, st, x)
	case *ssa.Select:
		fr.regs[x] = vc.selectStmt(fx, fr, st, x)
	case *ssa.MapUpdate:
		vc.mapUpdate(fx, x, st, fr)
	case *ssa.Range:
		fr.regs[x] = vc.rangeInit(fx, x, st, fr)
	case *ssa.Next:
		fr.regs[x] = vc.rangeNext(fx, x, st, fr)
	case *ssa.DebugRef:
	case *ssa.SliceToArrayPointer, *ssa.MultiConvert:
		fv, _ := vc.freshVal("conv", x.(ssa.Value).Type())
		fr.regs[x.(ssa.Value)] = fv
		st.setTaint("unsupported conversion")
	default:
		if v, ok := in.(ssa.Value); ok {
			fv, _ := vc.freshVal("unsupported", v.Type())
			fr.regs[v] = fv
		}
		st.setTaint(fmt.Sprintf("unsupported instruction %T", in))
	}
}

func intOf(t *Term) *Term {
	if t.Sort.Kind == SBV {
		return BV2Nat(t)
	}
	return t
}

// lockCheck: a field declared `guarded F by M` is read or written only while M of the same object is held (write
// lock for stores, read or write lock for loads). Objects this function allocated itself and has not published are
// exempt (constructors).
func (vc *VC) lockCheck(fx *FuncCtx, st *State, p *PtrV, write bool, pos token.Pos) {
	if !vc.locksafe || p == nil || p.Kind != PHeap || p.Base == nil || len(p.Alts) > 0 {
		return
	}
	var mu, field string
	for f, m := range vc.prog.guarded {
		if p.Key == f || keyHasPrefix(p.Key, f) {
			mu, field = m, f
		}
	}
	if mu == "" {
		return
	}
	if _, own := vc.localObjs[p.Base]; own {
		return
	}
	id := mu + "@" + termKey(p.Base)
	held := st.lockState("w:" + id)
	if !write {
		held = Or(held, st.lockState("r:"+id))
	}
	what := "read"
	if write {
		what = "write"
	}
	if held.IsConst && held.B {
		return
	}
	desc := "unprotected " + what + " of " + field + " (guarded by " + mu + ")"
	vc.oblige(st, "lock:"+desc+"@"+vc.relPos(fx, pos), "safety", held, tagsOf(vc.fc), desc+" at "+vc.posStr(pos))
}

// lockState: whether a lock is held; before the function has locked or unlocked it itself the answer is whatever the
// caller left (an unknown that `requires held(...)` can pin down).
func (st *State) lockState(key string) *Term {
	if h, ok := st.held[key]; ok {
		return h
	}
	return Var("lock0:"+key, BoolSort)
}

func (vc *VC) nilCheck(fx *FuncCtx, st *State, p *PtrV, pos token.Pos) {
	if len(p.Alts) > 0 {
		vc.check(fx, st, Not(Eq(st.ptrTerm(p), IntC(0))), "nil dereference", pos)
		return
	}
	if p.Kind != PHeap || p.Base == nil {
		return
	}
	if p.Base.Op == "+" && len(p.Base.Args) == 2 && vc.allocBases[p.Base.Args[0]] {
		return
	}
	if vc.allocBases[p.Base] {
		return
	}
	vc.check(fx, st, Not(Eq(p.Base, IntC(0))), "nil dereference", pos)
}

func (vc *VC) zeroArray(st *State, et types.Type, ref *Term) {
	for _, c := range components(et) {
		ki := vc.reg.get(elemKey(et)+c.Suffix, 2, c.Sort, IntSort)
		h := st.heapVar(ki)
		st.heap[ki.Name] = Store(h, ref, ConstArray(ArraySort(IntSort, c.Sort), zeroTerm(c.Sort)))
	}
}

func (vc *VC) unop(fx *FuncCtx, x *ssa.UnOp, st *State, fr *Frame) Val {
	v := vc.val(fx, fr, x.X)
	switch x.Op {
	case token.MUL:
		elem := x.X.Type().Underlying().(*types.Pointer).Elem()
		p := asPtr(v, elem)
		vc.nilCheck(fx, st, p, x.Pos())
		vc.lockCheck(fx, st, p, false, x.Pos())
		if at, ok := under(elem).(*types.Array); ok && p.Kind == PHeap && p.Idx == nil {
			if s := scalarSort(at.Elem()); s != nil {
				ki := vc.reg.get(elemKey(at.Elem()), 2, s, IntSort)
				return &ArrV{A: Select(st.heapVar(ki), p.Base), N: at.Len()}
			}
		}
		lv := st.load(p)
		if _, isMap := under(elem).(*types.Map); isMap && vc.locksafe {
			// a map read out of a lock-guarded field: changing the map (m[k] = v, delete) is a write to the guarded state
			if mt, ok := lv.(*Term); ok {
				if vc.guardedMaps == nil {
					vc.guardedMaps = map[string]*PtrV{}
				}
				vc.guardedMaps[termKey(mt)] = p
			}
		}
		if g, ok := x.X.(*ssa.Global); ok && g.Pkg != nil && g.Pkg.Pkg.Path() == "encoding/base64" {
			if pt, ok := lv.(*Term); ok {
				pad := int64('=')
				if g.Name() == "RawURLEncoding" || g.Name() == "RawStdEncoding" {
					pad = -1
				}
				kp := vc.reg.get("encoding.base64.Encoding.padChar", 1, IntSort, nil)
				ks := vc.reg.get("encoding.base64.Encoding.strict", 1, BoolSort, nil)
				vc.assume(st, And(Eq(Select(st.heapVar(kp), pt), IntC(pad)), Not(Select(st.heapVar(ks), pt)), Gt(pt, IntC(0))))
				vc.used["encoding/base64 package encodings: padChar and strict flag as in the standard library"] = true
			}
		}
		return lv
	case token.NOT:
		return Not(v.(*Term))
	case token.SUB:
		t := v.(*Term)
		if t.Sort.Kind == SBV {
			return BVNeg(t)
		}
		if t.Sort.Kind == SInt {
			return Neg(t)
		}
		return App("neg:"+t.Sort.String(), t.Sort, t)
	case token.XOR:
		t := v.(*Term)
		if t.Sort.Kind == SBV {
			return BVNot(t)
		}
		return Sub(Neg(t), IntC(1))
	case token.ARROW:
		// channel receive: arbitrary value
		if x.CommaOk {
			et := x.Type().(*types.Tuple).At(0).Type()
			fv, facts := vc.freshVal("recv", et)
			for _, f := range facts {
				vc.assume(st, f)
			}
			return &TupleV{Vs: []Val{fv, Fresh("recvok", BoolSort)}}
		}
		fv, facts := vc.freshVal("recv", x.Type())
		for _, f := range facts {
			vc.assume(st, f)
		}
		return fv
	}
	fv, _ := vc.freshVal("unop", x.Type())
	st.setTaint("unsupported unary operator " + x.Op.String())
	return fv
}

func pow2(n int64) *big.Int { return new(big.Int).Lsh(big.NewInt(1), uint(n)) }

func (vc *VC) binop(st *State, op token.Token, a, b Val, ta, tb types.Type) Val {
	// comparisons of composite values
	switch av := a.(type) {
	case *IfaceV:
		bv := st.toIface(b)
		eq := And(Eq(av.Tag, bv.Tag), Eq(av.Data, bv.Data))
		if bv.Tag.IsConst && bv.Tag.Int.Sign() == 0 {
			eq = Eq(av.Tag, IntC(0))
		} else if av.Tag.IsConst && av.Tag.Int.Sign() == 0 {
			eq = Eq(bv.Tag, IntC(0))
		}
		if op == token.EQL {
			return eq
		}
		return Not(eq)
	case *SliceV:
		// only comparison with nil is legal
		eq := Eq(av.Arr, IntC(0))
		if bs, ok := b.(*SliceV); ok && !(bs.Arr.IsConst && bs.Arr.Int.Sign() == 0) {
			eq = Eq(bs.Arr, IntC(0))
		}
		if op == token.EQL {
			return eq
		}
		return Not(eq)
	case *StructV:
		bv := b.(*StructV)
		var cs []*Term
		for i := range av.F {
			ft := av.T.Field(i).Type()
			cs = append(cs, vc.binop(st, token.EQL, av.F[i], bv.F[i], ft, ft).(*Term))
		}
		if op == token.EQL {
			return And(cs...)
		}
		return Not(And(cs...))
	case *ArrV:
		bv := b.(*ArrV)
		eq := Eq(av.A, bv.A)
		if op == token.EQL {
			return eq
		}
		return Not(eq)
	case *PtrV:
		if av.Kind != PHeap && (op == token.EQL || op == token.NEQ) {
			// the address of a local or global is never nil and equals only itself
			eq := False()
			if bp, ok := b.(*PtrV); ok {
				eq = BoolC(sameVal(av, bp))
			}
			if op == token.EQL {
				return eq
			}
			return Not(eq)
		}
		if bt, ok := b.(*Term); ok && bt.IsConst && bt.Sort.Kind == SInt && bt.Int.Sign() == 0 && av.Base != nil && (op == token.EQL || op == token.NEQ) {
			// comparison with nil: an interior pointer is nil only if its base is
			eq := Eq(av.Base, IntC(0))
			if op == token.EQL {
				return eq
			}
			return Not(eq)
		}
		a = st.toTerm(a, ta)
	case *FuncV:
		a = st.toTerm(a, ta)
	}
	if bp, ok := b.(*PtrV); ok && bp.Kind != PHeap && (op == token.EQL || op == token.NEQ) {
		if op == token.EQL {
			return False()
		}
		return True()
	}
	switch b.(type) {
	case *PtrV, *FuncV:
		b = st.toTerm(b, tb)
	case *IfaceV:
		// a scalar compared to interface: treat via interface equality
		ai := vc.makeIface(st, a, ta)
		return vc.binop(st, op, ai, b, tb, tb)
	}
	x, ok1 := a.(*Term)
	y, ok2 := b.(*Term)
	if !ok1 || !ok2 {
		st.setTaint("unsupported binary operands")
		return Fresh("binop", BoolSort)
	}
	switch {
	case x.Sort.Kind == SBool:
		switch op {
		case token.EQL:
			return Iff(x, y)
		case token.NEQ:
			return Not(Iff(x, y))
		case token.AND, token.LAND:
			return And(x, y)
		case token.OR, token.LOR:
			return Or(x, y)
		}
	case x.Sort == StrSort:
		switch op {
		case token.ADD:
			return vc.StrCat(x, y)
		case token.EQL:
			return vc.StrEq(x, y)
		case token.NEQ:
			return Not(vc.StrEq(x, y))
		case token.LSS:
			return vc.StrLt(x, y)
		case token.GTR:
			return vc.StrLt(y, x)
		case token.LEQ:
			return Not(vc.StrLt(y, x))
		case token.GEQ:
			return Not(vc.StrLt(x, y))
		}
	case x.Sort.Kind == SBV:
		w := x.Sort.Width
		if op == token.SHL || op == token.SHR {
			var sh *Term
			switch {
			case y.Sort.Kind == SBV:
				if y.Sort.Width > w {
					// large shift counts: result 0 when count >= w; compare in y's width
					big := BVCmp("bvuge", y, BVC(uint64(w), y.Sort.Width))
					s := BVResize(y, w)
					if op == token.SHL {
						return Ite(big, BVC(0, w), BVBin("bvshl", x, s))
					}
					return Ite(big, BVC(0, w), BVBin("bvlshr", x, s))
				}
				sh = BVResize(y, w)
			default:
				sh = Int2BV(y, w)
				if !y.IsConst {
					big := Ge(y, IntC(int64(w)))
					if op == token.SHL {
						return Ite(big, BVC(0, w), BVBin("bvshl", x, sh))
					}
					return Ite(big, BVC(0, w), BVBin("bvlshr", x, sh))
				}
			}
			if op == token.SHL {
				return BVBin("bvshl", x, sh)
			}
			return BVBin("bvlshr", x, sh)
		}
		if y.Sort != x.Sort {
			if y.Sort.Kind == SBV {
				y = BVResize(y, w)
			} else if y.Sort.Kind == SInt {
				y = Int2BV(y, w)
			}
		}
		switch op {
		case token.ADD:
			return BVBin("bvadd", x, y)
		case token.SUB:
			return BVBin("bvsub", x, y)
		case token.MUL:
			return BVBin("bvmul", x, y)
		case token.QUO:
			return BVBin("bvudiv", x, y)
		case token.REM:
			return BVBin("bvurem", x, y)
		case token.AND:
			return BVBin("bvand", x, y)
		case token.OR:
			return BVBin("bvor", x, y)
		case token.XOR:
			return BVBin("bvxor", x, y)
		case token.AND_NOT:
			return BVBin("bvand", x, BVNot(y))
		case token.EQL:
			return Eq(x, y)
		case token.NEQ:
			return Not(Eq(x, y))
		case token.LSS:
			return BVCmp("bvult", x, y)
		case token.LEQ:
			return BVCmp("bvule", x, y)
		case token.GTR:
			return BVCmp("bvugt", x, y)
		case token.GEQ:
			return BVCmp("bvuge", x, y)
		}
	case x.Sort.Kind == SInt:
		if y.Sort.Kind == SBV {
			if op == token.SHL || op == token.SHR {
				y = BV2Nat(y)
			} else {
				y = BV2Nat(y)
			}
		}
		switch op {
		case token.ADD:
			return Add(x, y)
		case token.SUB:
			return Sub(x, y)
		case token.MUL:
			return Mul(x, y)
		case token.QUO:
			return QuoGo(x, y)
		case token.REM:
			return RemGo(x, y)
		case token.EQL:
			return Eq(x, y)
		case token.NEQ:
			return Not(Eq(x, y))
		case token.LSS:
			return Lt(x, y)
		case token.LEQ:
			return Le(x, y)
		case token.GTR:
			return Gt(x, y)
		case token.GEQ:
			return Ge(x, y)
		case token.SHL:
			if y.IsConst && y.Int.IsInt64() && y.Int.Int64() < 512 {
				return Mul(x, IntBig(pow2(y.Int.Int64())))
			}
			return App("int.shl", IntSort, x, y)
		case token.SHR:
			if y.IsConst && y.Int.IsInt64() && y.Int.Int64() < 512 {
				return mk("div", IntSort, x, IntBig(pow2(y.Int.Int64())))
			}
			return App("int.shr", IntSort, x, y)
		case token.AND, token.OR, token.XOR, token.AND_NOT:
			// signed integers used as bit sets: exact when one operand is a small non-negative constant
			// (bit b of x is (x div 2^b) mod 2, also for negative x in two's complement)
			v, c := x, y
			if op != token.AND_NOT && x.IsConst && !y.IsConst {
				v, c = y, x
			}
			if op == token.AND && c.IsConst && c.Int.Sign() < 0 && !v.IsConst {
				// x & c with c = ^m for a small non-negative mask m (Go compiles x & ^m this way): the same as x &^ m
				m := new(big.Int).Not(c.Int)
				if m.Sign() >= 0 && m.BitLen() <= 40 {
					return vc.binop(st, token.AND_NOT, v, IntBig(m), ta, tb)
				}
			}
			if c.IsConst && c.Int.Sign() >= 0 && c.Int.BitLen() <= 40 && !(op == token.AND_NOT && x.IsConst && !y.IsConst) {
				if v.IsConst {
					r := new(big.Int)
					switch op {
					case token.AND:
						r.And(v.Int, c.Int)
					case token.OR:
						r.Or(v.Int, c.Int)
					case token.XOR:
						r.Xor(v.Int, c.Int)
					default:
						r.AndNot(v.Int, c.Int)
					}
					return IntBig(r)
				}
				bit := func(b int) *Term {
					return mk("mod", IntSort, mk("div", IntSort, v, IntBig(pow2(int64(b)))), IntC(2))
				}
				var sum *Term = IntC(0)
				for b := 0; b < c.Int.BitLen(); b++ {
					if c.Int.Bit(b) == 0 {
						continue
					}
					w := IntBig(pow2(int64(b)))
					switch op {
					case token.AND, token.AND_NOT:
						sum = Add(sum, Mul(bit(b), w))
					case token.OR:
						sum = Add(sum, Mul(Sub(IntC(1), bit(b)), w))
					case token.XOR:
						sum = Add(sum, Mul(Sub(IntC(1), Mul(IntC(2), bit(b))), w))
					}
				}
				switch op {
				case token.AND:
					return sum
				case token.AND_NOT:
					return Sub(v, sum)
				default:
					return Add(v, sum)
				}
			}
			return App("int."+op.String(), IntSort, x, y)
		}
	case x.Sort == FloatSort:
		switch op {
		case token.EQL:
			return Eq(x, y)
		case token.NEQ:
			return Not(Eq(x, y))
		case token.LSS:
			return App("flt.lt", BoolSort, x, y)
		case token.GTR:
			return App("flt.lt", BoolSort, y, x)
		case token.LEQ:
			return Not(App("flt.lt", BoolSort, y, x))
		case token.GEQ:
			return Not(App("flt.lt", BoolSort, x, y))
		default:
			return App("flt."+op.String(), FloatSort, x, y)
		}
	}
	if x.Sort == y.Sort && (op == token.EQL || op == token.NEQ) {
		if op == token.EQL {
			return Eq(x, y)
		}
		return Not(Eq(x, y))
	}
	st.setTaint("unsupported binary operator " + op.String() + " on " + x.Sort.String())
	if op == token.EQL || op == token.NEQ || op == token.LSS || op == token.GTR || op == token.LEQ || op == token.GEQ {
		return Fresh("binop", BoolSort)
	}
	return Fresh("binop", x.Sort)
}

// ---------- strings ----------

func (vc *VC) StrLt(a, b *Term) *Term { return App("gstr.lt", BoolSort, a, b) }

func (vc *VC) StrCat(a, b *Term) *Term {
	la, oka := strLitValue(a)
	lb, okb := strLitValue(b)
	if oka && okb {
		return StrLit(la + lb)
	}
	if oka && la == "" {
		return b
	}
	if okb && lb == "" {
		return a
	}
	r := App("gstr.cat", StrSort, a, b)
	if vc.strDone[r] {
		return r
	}
	vc.strDone[r] = true
	vc.addGlobalFact(Eq(StrLen(r), Add(StrLen(a), StrLen(b))))
	if oka {
		for i := 0; i < len(la); i++ {
			vc.addGlobalFact(Eq(StrAt(r, IntC(int64(i))), BVC(uint64(la[i]), 8)))
		}
	} else {
		i := Bound("i", IntSort)
		vc.addGlobalFact(Forall([]*Term{i}, Implies(And(Le(IntC(0), i), Lt(i, StrLen(a))), Eq(StrAt(r, i), StrAt(a, i)))))
	}
	if okb {
		for i := 0; i < len(lb); i++ {
			vc.addGlobalFact(Eq(StrAt(r, Add(StrLen(a), IntC(int64(i)))), BVC(uint64(lb[i]), 8)))
		}
	} else {
		j := Bound("j", IntSort)
		vc.addGlobalFact(Forall([]*Term{j}, Implies(And(Le(IntC(0), j), Lt(j, StrLen(b))), Eq(StrAt(r, Add(StrLen(a), j)), StrAt(b, j)))))
	}
	return r
}

func (vc *VC) StrSub(s, lo, hi *Term) *Term {
	if lo.IsConst && lo.Int.Sign() == 0 && hi == StrLen(s) {
		return s
	}
	r := App("gstr.sub", StrSort, s, lo, hi)
	if vc.strDone[r] {
		return r
	}
	vc.strDone[r] = true
	vc.addGlobalFact(Eq(StrLen(r), Sub(hi, lo)))
	if lo.IsConst && lo.Int.Sign() == 0 {
		vc.addGlobalFact(Eq(StrBytes(r), StrBytes(s)))
	} else {
		i := Bound("i", IntSort)
		vc.addGlobalFact(Forall([]*Term{i}, Implies(And(Le(IntC(0), i), Lt(i, Sub(hi, lo))), Eq(StrAt(r, i), StrAt(s, Add(lo, i))))))
	}
	return r
}

// StrMk builds a string from bytes content[off .. off+n).
func (vc *VC) StrMk(content, off, n *Term) *Term {
	// string([]byte(s)) == s
	if content.IsApp && content.Op == "gstr.bytes" && off.IsConst && off.Int.Sign() == 0 && n == StrLen(content.Args[0]) {
		return content.Args[0]
	}
	r := App("gstr.mk", StrSort, content, off, n)
	if vc.strDone[r] {
		return r
	}
	vc.strDone[r] = true
	vc.addGlobalFact(Eq(StrLen(r), n))
	if off.IsConst && off.Int.Sign() == 0 {
		vc.addGlobalFact(Eq(StrBytes(r), content))
	} else {
		i := Bound("i", IntSort)
		vc.addGlobalFact(Forall([]*Term{i}, Implies(And(Le(IntC(0), i), Lt(i, n)), Eq(StrAt(r, i), Select(content, Add(off, i))))))
	}
	return r
}

// ---------- conversions ----------

func (vc *VC) convert(st *State, v Val, from, to types.Type) Val {
	if t, ok := v.(*Term); ok {
		fs, ts := scalarSort(from), scalarSort(to)
		if fs != nil && ts != nil {
			switch {
			case fs == ts && fs.Kind != SUnint:
				return t
			case fs.Kind == SBV && ts.Kind == SBV:
				return BVResize(t, ts.Width)
			case fs.Kind == SInt && ts.Kind == SBV:
				return Int2BV(t, ts.Width)
			case fs.Kind == SBV && ts.Kind == SInt:
				return BV2Nat(t)
			case fs == StrSort && ts == StrSort:
				return t
			case fs == FloatSort && ts == FloatSort:
				return t
			case ts == StrSort && fs.Kind == SInt:
				return App("gstr.fromrune", StrSort, t)
			case ts == StrSort && fs.Kind == SBV:
				if fs.Width == 8 {
					// string(byte) for ASCII: single-byte string; otherwise opaque
					r := App("gstr.frombyte", StrSort, t)
					vc.addGlobalFact(Implies(BVCmp("bvult", t, BVC(0x80, 8)), And(Eq(StrLen(r), IntC(1)), Eq(StrAt(r, IntC(0)), t))))
					vc.addGlobalFact(Ge(StrLen(r), IntC(1)))
					return r
				}
				return App("gstr.fromrune", StrSort, BV2Nat(t))
			case ts == FloatSort:
				return App("flt.from:"+fs.String(), FloatSort, t)
			case fs == FloatSort:
				return App("flt.to:"+ts.String(), ts, t)
			}
		}
		// string -> []byte / []rune
		if fs == StrSort {
			if sl, ok := under(to).(*types.Slice); ok {
				if w, ok := isUnsigned(sl.Elem()); ok && w == 8 {
					ref := vc.freshRef()
					ki := vc.reg.get(elemKey(sl.Elem()), 2, BVSort(8), IntSort)
					h := st.heapVar(ki)
					st.heap[ki.Name] = Store(h, ref, StrBytes(t))
					return &SliceV{ref, IntC(0), StrLen(t), StrLen(t)}
				}
				// []rune: opaque content
				ref := vc.freshRef()
				n := App("gstr.runecount", IntSort, t)
				vc.addGlobalFact(And(Ge(n, IntC(0)), Le(n, StrLen(t))))
				return &SliceV{ref, IntC(0), n, n}
			}
		}
	}
	if sv, ok := v.(*SliceV); ok && isString(to) {
		sl := under(from).(*types.Slice)
		if w, ok := isUnsigned(sl.Elem()); ok && w == 8 {
			ki := vc.reg.get(elemKey(sl.Elem()), 2, BVSort(8), IntSort)
			content := Select(st.heapVar(ki), sv.Arr)
			return vc.StrMk(content, sv.Off, sv.Len)
		}
		r := Fresh("gstr.fromrunes", StrSort)
		vc.addGlobalFact(Ge(StrLen(r), IntC(0)))
		return r
	}
	if types.Identical(under(from), under(to)) {
		return v
	}
	if _, ok := v.(*PtrV); ok {
		return v
	}
	fv, _ := vc.freshVal("convert", to)
	st.setTaint("unsupported conversion " + from.String() + " -> " + to.String())
	return fv
}

// ---------- interfaces ----------

func (vc *VC) makeIface(st *State, v Val, t types.Type) *IfaceV {
	if iv, ok := v.(*IfaceV); ok {
		return iv
	}
	tag := vc.typeTag(t)
	var data *Term
	switch x := v.(type) {
	case *Term:
		switch {
		case x.Sort.Kind == SInt:
			data = x
		case x.Sort.Kind == SBool:
			data = Ite(x, IntC(1), IntC(0))
		case x.Sort.Kind == SBV:
			data = BV2Nat(x)
			if !x.IsConst {
				// what a specification reads back with dynval() is the boxed value itself
				vc.addGlobalFact(Eq(App(fmt.Sprintf("int2bv.%d", x.Sort.Width), BVSort(x.Sort.Width), data), x))
			}
		default:
			data = App("box:"+x.Sort.String(), IntSort, x)
			vc.addGlobalFact(Eq(App("unbox:"+x.Sort.String(), x.Sort, data), x))
		}
	case *PtrV:
		data = st.ptrTerm(x)
	case *FuncV:
		data = st.toTerm(x, t)
	default:
		data = Fresh("boxed", IntSort)
		vc.boxed[data] = v
	}
	vc.boxedType[data] = t
	return &IfaceV{Tag: tag, Data: data}
}

func (vc *VC) unbox(st *State, iv *IfaceV, t types.Type) Val {
	if s := scalarSort(t); s != nil {
		switch {
		case s.Kind == SInt:
			return iv.Data
		case s.Kind == SBool:
			return Eq(iv.Data, IntC(1))
		case s.Kind == SBV:
			return Int2BV(iv.Data, s.Width)
		default:
			return App("unbox:"+s.String(), s, iv.Data)
		}
	}
	if v, ok := vc.boxed[iv.Data]; ok {
		return v
	}
	fv, facts := vc.freshVal("unboxed", t)
	for _, f := range facts {
		vc.assume(st, f)
	}
	return fv
}

func (vc *VC) typeAssert(fx *FuncCtx, x *ssa.TypeAssert, st *State, fr *Frame) Val {
	iv := st.toIface(vc.val(fx, fr, x.X))
	var ok *Term
	var val Val
	if _, isIface := under(x.AssertedType).(*types.Interface); isIface {
		// interface-to-interface: succeeds for non-nil values whose type implements it (unknown statically)
		ok = And(Not(Eq(iv.Tag, IntC(0))), App("implements:"+types.TypeString(x.AssertedType, qualShort), BoolSort, iv.Tag))
		if types.Implements(x.X.Type(), under(x.AssertedType).(*types.Interface)) {
			ok = Not(Eq(iv.Tag, IntC(0)))
		}
		val = iv
	} else {
		ok = Eq(iv.Tag, vc.typeTag(x.AssertedType))
		val = vc.unbox(st, iv, x.AssertedType)
	}
	if x.CommaOk {
		// on failure the value is the zero value
		z := zeroVal(x.AssertedType)
		if m, mok := mergeVals(ok, val, z); mok {
			val = m
		}
		return &TupleV{Vs: []Val{val, ok}}
	}
	vc.check(fx, st, ok, "type assertion", x.Pos())
	return val
}

// ---------- indexing and slicing ----------

func (vc *VC) indexAddr(fx *FuncCtx, x *ssa.IndexAddr, st *State, fr *Frame) Val {
	idx := intOf(vc.val(fx, fr, x.Index).(*Term))
	switch xt := under(x.X.Type()).(type) {
	case *types.Slice:
		sv := vc.val(fx, fr, x.X).(*SliceV)
		vc.check(fx, st, And(Le(IntC(0), idx), Lt(idx, sv.Len)), "index out of range", x.Pos())
		return &PtrV{Kind: PHeap, Base: sv.Arr, Idx: Add(sv.Off, idx), Key: elemKey(xt.Elem()), Elem: xt.Elem()}
	case *types.Pointer:
		at := under(xt.Elem()).(*types.Array)
		p := asPtr(vc.val(fx, fr, x.X), xt.Elem())
		vc.check(fx, st, And(Le(IntC(0), idx), Lt(idx, IntC(at.Len()))), "index out of range", x.Pos())
		if p.Kind == PHeap {
			key := p.Key
			if key == typeKey(xt.Elem()) {
				key = elemKey(at.Elem())
			}
			return &PtrV{Kind: PHeap, Base: p.Base, Idx: idx, Key: key, Elem: at.Elem()}
		}
		st.setTaint("index into local array variable")
		return &PtrV{Kind: PHeap, Base: Fresh("arr", IntSort), Idx: idx, Key: elemKey(at.Elem()), Elem: at.Elem()}
	}
	st.setTaint("unsupported IndexAddr")
	return &PtrV{Kind: PHeap, Base: Fresh("arr", IntSort), Idx: idx, Key: "unknown", Elem: x.Type().(*types.Pointer).Elem()}
}

func (vc *VC) indexVal(fx *FuncCtx, x *ssa.Index, st *State, fr *Frame) Val {
	idx := intOf(vc.val(fx, fr, x.Index).(*Term))
	if av, ok := vc.val(fx, fr, x.X).(*ArrV); ok {
		vc.check(fx, st, And(Le(IntC(0), idx), Lt(idx, IntC(av.N))), "index out of range", x.Pos())
		return Select(av.A, idx)
	}
	if s, ok := vc.val(fx, fr, x.X).(*Term); ok && s.Sort == StrSort {
		vc.check(fx, st, And(Le(IntC(0), idx), Lt(idx, StrLen(s))), "index out of range", x.Pos())
		return StrAt(s, idx)
	}
	fv, _ := vc.freshVal("index", x.Type())
	st.setTaint("unsupported Index")
	return fv
}

func (vc *VC) sliceOp(fx *FuncCtx, x *ssa.Slice, st *State, fr *Frame) Val {
	get := func(v ssa.Value) *Term {
		if v == nil {
			return nil
		}
		return intOf(vc.val(fx, fr, v).(*Term))
	}
	lo, hi, mx := get(x.Low), get(x.High), get(x.Max)
	if lo == nil {
		lo = IntC(0)
	}
	switch xt := under(x.X.Type()).(type) {
	case *types.Slice:
		sv := vc.val(fx, fr, x.X).(*SliceV)
		if hi == nil {
			hi = sv.Len
		}
		capv := sv.Cap
		if mx != nil {
			capv = mx
		}
		vc.check(fx, st, And(Le(IntC(0), lo), Le(lo, hi), Le(hi, capv), Le(capv, sv.Cap)), "slice bounds out of range", x.Pos())
		return &SliceV{sv.Arr, Add(sv.Off, lo), Sub(hi, lo), Sub(capv, lo)}
	case *types.Basic:
		s := vc.val(fx, fr, x.X).(*Term)
		if hi == nil {
			hi = StrLen(s)
		}
		vc.check(fx, st, And(Le(IntC(0), lo), Le(lo, hi), Le(hi, StrLen(s))), "slice bounds out of range", x.Pos())
		return vc.StrSub(s, lo, hi)
	case *types.Pointer:
		at := under(xt.Elem()).(*types.Array)
		p := asPtr(vc.val(fx, fr, x.X), xt.Elem())
		if hi == nil {
			hi = IntC(at.Len())
		}
		capv := IntC(at.Len())
		if mx != nil {
			capv = mx
		}
		vc.check(fx, st, And(Le(IntC(0), lo), Le(lo, hi), Le(hi, capv), Le(capv, IntC(at.Len()))), "slice bounds out of range", x.Pos())
		if p.Kind == PHeap {
			return &SliceV{p.Base, lo, Sub(hi, lo), Sub(capv, lo)}
		}
	}
	fv, _ := vc.freshVal("slice", x.Type())
	st.setTaint("unsupported Slice operand")
	return fv
}

// ---------- maps ----------

func keySortOf(mt *types.Map) *Sort {
	if s := scalarSort(mt.Key()); s != nil {
		return s
	}
	return IntSort
}

func (vc *VC) mapKeyTerm(st *State, mt *types.Map, k Val) *Term {
	if s := scalarSort(mt.Key()); s != nil {
		return st.toTerm(k, mt.Key())
	}
	if iv, ok := k.(*IfaceV); ok {
		return App("ifacekey", IntSort, iv.Tag, iv.Data)
	}
	st.setTaint("composite map key")
	return Fresh("mapkey", IntSort)
}

func (vc *VC) mapDom(st *State, mt *types.Map, m *Term) *Term {
	ki := vc.reg.get(mapKey(mt)+"#dom", 2, BoolSort, keySortOf(mt))
	return Select(st.heapVar(ki), m)
}

func (vc *VC) mapLen(st *State, mt *types.Map, m *Term) *Term {
	ki := vc.reg.get(mapKey(mt)+"#len", 1, IntSort, nil)
	l := Select(st.heapVar(ki), m)
	vc.assume(st, Ge(l, IntC(0)))
	// a map of length 0 has no keys
	vc.assume(st, Implies(Eq(l, IntC(0)), Eq(vc.mapDom(st, mt, m), ConstArray(ArraySort(keySortOf(mt), BoolSort), False()))))
	return l
}

func (vc *VC) initMap(st *State, mt *types.Map, ref *Term) {
	ks := keySortOf(mt)
	kd := vc.reg.get(mapKey(mt)+"#dom", 2, BoolSort, ks)
	st.heap[kd.Name] = Store(st.heapVar(kd), ref, ConstArray(ArraySort(ks, BoolSort), False()))
	kl := vc.reg.get(mapKey(mt)+"#len", 1, IntSort, nil)
	st.heap[kl.Name] = Store(st.heapVar(kl), ref, IntC(0))
	for _, c := range components(mt.Elem()) {
		kv := vc.reg.get(mapKey(mt)+"#val"+c.Suffix, 2, c.Sort, ks)
		st.heap[kv.Name] = Store(st.heapVar(kv), ref, ConstArray(ArraySort(ks, c.Sort), zeroTerm(c.Sort)))
	}
}

func (vc *VC) mapValPtr(mt *types.Map, m, k *Term) *PtrV {
	return &PtrV{Kind: PHeap, Base: m, Idx: k, Key: mapKey(mt) + "#val", Elem: mt.Elem()}
}

func (vc *VC) lookup(fx *FuncCtx, x *ssa.Lookup, st *State, fr *Frame) Val {
	if mt, ok := under(x.X.Type()).(*types.Map); ok {
		m := st.toTerm(vc.val(fx, fr, x.X), x.X.Type())
		k := vc.mapKeyTerm(st, mt, vc.val(fx, fr, x.Index))
		in := And(Not(Eq(m, IntC(0))), Select(vc.mapDom(st, mt, m), k))
		v := st.load(vc.mapValPtr(mt, m, k))
		z := zeroVal(mt.Elem())
		if mv, ok := mergeVals(in, v, z); ok {
			v = mv
		}
		if x.CommaOk {
			return &TupleV{Vs: []Val{v, in}}
		}
		return v
	}
	// string indexing
	s := vc.val(fx, fr, x.X).(*Term)
	idx := intOf(vc.val(fx, fr, x.Index).(*Term))
	vc.check(fx, st, And(Le(IntC(0), idx), Lt(idx, StrLen(s))), "index out of range", x.Pos())
	return StrAt(s, idx)
}

func (vc *VC) mapUpdate(fx *FuncCtx, x *ssa.MapUpdate, st *State, fr *Frame) {
	mt := under(x.Map.Type()).(*types.Map)
	m := st.toTerm(vc.val(fx, fr, x.Map), x.Map.Type())
	vc.check(fx, st, Not(Eq(m, IntC(0))), "assignment to entry in nil map", x.Pos())
	if gp := vc.guardedMaps[termKey(m)]; gp != nil {
		vc.lockCheck(fx, st, gp, true, x.Pos())
	}
	k := vc.mapKeyTerm(st, mt, vc.val(fx, fr, x.Key))
	vc.mapStore(st, mt, m, k, vc.val(fx, fr, x.Value))
}

func (vc *VC) mapStore(st *State, mt *types.Map, m, k *Term, v Val) {
	vc.markEscaped(st, v)
	vc.markEscaped(st, k)
	ks := keySortOf(mt)
	kd := vc.reg.get(mapKey(mt)+"#dom", 2, BoolSort, ks)
	dom := Select(st.heapVar(kd), m)
	was := Select(dom, k)
	kl := vc.reg.get(mapKey(mt)+"#len", 1, IntSort, nil)
	hl := st.heapVar(kl)
	st.heap[kl.Name] = Store(hl, m, Add(Select(hl, m), Ite(was, IntC(0), IntC(1))))
	st.heap[kd.Name] = Store(st.heapVar(kd), m, Store(dom, k, True()))
	vc.noteWrite(st, PHeap, kd.Name, m, k)
	vc.noteWrite(st, PHeap, kl.Name, m, nil)
	if _, isIface := under(mt.Elem()).(*types.Interface); isIface {
		v = st.toIface(v)
	}
	st.store(vc.mapValPtr(mt, m, k), v)
}

func (vc *VC) mapDelete(st *State, mt *types.Map, m, k *Term) {
	ks := keySortOf(mt)
	kd := vc.reg.get(mapKey(mt)+"#dom", 2, BoolSort, ks)
	dom := Select(st.heapVar(kd), m)
	was := And(Not(Eq(m, IntC(0))), Select(dom, k))
	kl := vc.reg.get(mapKey(mt)+"#len", 1, IntSort, nil)
	hl := st.heapVar(kl)
	st.heap[kl.Name] = Store(hl, m, Sub(Select(hl, m), Ite(was, IntC(1), IntC(0))))
	st.heap[kd.Name] = Store(st.heapVar(kd), m, Store(dom, k, False()))
	vc.noteWrite(st, PHeap, kd.Name, m, k)
	vc.noteWrite(st, PHeap, kl.Name, m, nil)
}

// ---------- range ----------

type IterV struct {
	Kind string // "string" or "map"
	X    Val
	T    types.Type
	Pos  *PtrV // cell holding the position (strings) / count of visited keys (maps)
	Seen *PtrV // maps: cell holding the visited set (Array K Bool)
}

func (vc *VC) rangeInit(fx *FuncCtx, x *ssa.Range, st *State, fr *Frame) Val {
	vc.nextCell++
	id := vc.nextCell
	st.cells[id] = IntC(0)
	it := &IterV{X: vc.val(fx, fr, x.X), T: x.X.Type(), Pos: &PtrV{Kind: PCell, Cell: id, Elem: types.Typ[types.Int]}}
	if mt, ok := under(x.X.Type()).(*types.Map); ok {
		it.Kind = "map"
		vc.nextCell++
		sid := vc.nextCell
		st.cells[sid] = ConstArray(ArraySort(keySortOf(mt), BoolSort), False())
		it.Seen = &PtrV{Kind: PCell, Cell: sid, Elem: ghostType{ArraySort(keySortOf(mt), BoolSort)}}
		if fx.locals != nil {
			fx.locals["#seen"] = it.Seen
		}
	} else {
		it.Kind = "string"
		if fx.locals != nil {
			fx.locals["#pos"] = it.Pos
		}
	}
	return it
}

func (vc *VC) rangeNext(fx *FuncCtx, x *ssa.Next, st *State, fr *Frame) Val {
	it, ok := vc.val(fx, fr, x.Iter).(*IterV)
	if !ok {
		fv, _ := vc.freshVal("next", x.Type())
		st.setTaint("range over unsupported iterator")
		return fv
	}
	if it.Kind == "string" {
		s := it.X.(*Term)
		pos := st.load(it.Pos).(*Term)
		okc := Lt(pos, StrLen(s))
		b0 := StrAt(s, pos)
		ascii := BVCmp("bvult", b0, BVC(0x80, 8))
		width := Fresh("runewidth", IntSort)
		r := Fresh("rune", IntSort)
		vc.assume(st, Implies(okc, And(Ge(width, IntC(1)), Le(width, IntC(4)), Le(Add(pos, width), StrLen(s)))))
		vc.assume(st, Implies(And(okc, ascii), And(Eq(width, IntC(1)), Eq(r, BV2Nat(b0)))))
		vc.assume(st, Implies(And(okc, Not(ascii)), And(Ge(r, IntC(0x80)), Le(r, IntC(0x10FFFF)))))
		st.store(it.Pos, Ite(okc, Add(pos, width), pos))
		return &TupleV{Vs: []Val{okc, pos, r}}
	}
	mt := under(it.T).(*types.Map)
	m := st.toTerm(it.X, it.T)
	seen := st.load(it.Seen).(*Term)
	cnt := st.load(it.Pos).(*Term)
	okc := Fresh("rangeok", BoolSort)
	k := Fresh("rangekey", keySortOf(mt))
	dom := vc.mapDom(st, mt, m)
	// an unvisited key is produced, or every key has been visited (iteration order arbitrary)
	vc.assume(st, Implies(okc, And(Not(Eq(m, IntC(0))), Select(dom, k), Not(Select(seen, k)))))
	j := Bound("j", keySortOf(mt))
	vc.assume(st, Implies(Not(okc), Or(Eq(m, IntC(0)), Forall([]*Term{j}, Implies(Select(dom, j), Select(seen, j))))))
	st.store(it.Seen, Ite(okc, Store(seen, k, True()), seen))
	st.store(it.Pos, Ite(okc, Add(cnt, IntC(1)), cnt))
	var kv Val = k
	if scalarSort(mt.Key()) == nil {
		fv, _ := vc.freshVal("rangekey", mt.Key())
		kv = fv
		st.setTaint("range over map with composite key")
	}
	v := st.load(vc.mapValPtr(mt, m, k))
	return &TupleV{Vs: []Val{okc, kv, v}}
}


// writeOnce: the heap-allocated local al (a variable captured by closures) is stored to exactly once, in the entry
// block of its function, and every other use - in the function and, through the closures' free variables, in the
// closures - only reads it.
var writeOnceMemo = map[*ssa.Alloc]bool{}

func writeOnce(al *ssa.Alloc) bool {
	if v, ok := writeOnceMemo[al]; ok {
		return v
	}
	r := false
	defer func() { writeOnceMemo[al] = r }()
	fn := al.Parent()
	if fn == nil || len(fn.Blocks) == 0 || al.Block() != fn.Blocks[0] {
		return false
	}
	if _, isStruct := al.Type().(*types.Pointer).Elem().Underlying().(*types.Struct); isStruct {
		return false
	}
	if _, isArr := al.Type().(*types.Pointer).Elem().Underlying().(*types.Array); isArr {
		return false
	}
	stores := 0
	var readOnly func(v ssa.Value, top bool) bool
	readOnly = func(v ssa.Value, top bool) bool {
		refs := v.Referrers()
		if refs == nil {
			return false
		}
		for _, in := range *refs {
			switch x := in.(type) {
			case *ssa.Store:
				if x.Addr != v || x.Val == v {
					return false
				}
				if !top || x.Block() != fn.Blocks[0] {
					return false
				}
				stores++
			case *ssa.UnOp:
				if x.Op != token.MUL {
					return false
				}
			case *ssa.DebugRef:
			case *ssa.MakeClosure:
				cf, ok := x.Fn.(*ssa.Function)
				if !ok {
					return false
				}
				for i, b := range x.Bindings {
					if b == v {
						if i >= len(cf.FreeVars) || !readOnly(cf.FreeVars[i], false) {
							return false
						}
					}
				}
			default:
				return false
			}
		}
		return true
	}
	if !readOnly(al, true) || stores != 1 {
		return false
	}
	r = true
	return true
}
