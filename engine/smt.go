package main

import (
	"bytes"
	"context"
	"fmt"
	"os"
	"os/exec"
	"path/filepath"
	"strings"
	"sync"
	"time"
)

type Solver struct {
	Name string
	Cmd  []string // file name appended
}

func solverList(timeoutS int) []Solver {
	t := fmt.Sprintf("%d", timeoutS)
	return []Solver{
		{"z3-4.8.12", []string{"/usr/bin/z3", "-T:" + t, "-smt2"}},
		{"z3-5.1.0", []string{"z3-new", "-T:" + t, "-smt2"}},
		{"cvc5-1.0", []string{"cvc5", "--tlimit=" + t + "000", "--lang=smt2", "--produce-models"}},
	}
}

type SolveResult struct {
	Status  string // unsat sat unknown timeout error
	Backend string
	Seconds float64
	Output  string
	All     map[string]string
}

func hasQuant(ts []*Term) bool {
	seen := map[int]bool{}
	var rec func(t *Term) bool
	rec = func(t *Term) bool {
		if seen[t.ID] {
			return false
		}
		seen[t.ID] = true
		if t.Op == "forall" || t.Op == "exists" {
			return true
		}
		for _, a := range t.Args {
			if rec(a) {
				return true
			}
		}
		return false
	}
	for _, t := range ts {
		if rec(t) {
			return true
		}
	}
	return false
}

// splitGoal breaks a goal into conjuncts that are proved separately.
func splitGoal(g *Term) []*Term {
	if g.Op == "and" && !g.IsVar {
		var out []*Term
		for _, a := range g.Args {
			out = append(out, splitGoal(a)...)
		}
		return out
	}
	if g.Op == "=>" && len(g.Args) == 2 {
		parts := splitGoal(g.Args[1])
		if len(parts) > 1 {
			var out []*Term
			for _, p := range parts {
				out = append(out, Implies(g.Args[0], p))
			}
			return out
		}
	}
	return []*Term{g}
}

// obligationScript builds the refutation query of one obligation.
func obligationScript(fr *FuncResult, o *Obligation, getVals []*Term) (string, int) {
	var asserts []*Term
	asserts = append(asserts, fr.GFacts...)
	n := o.NAssume
	if n > len(fr.Assumes) {
		n = len(fr.Assumes)
	}
	asserts = append(asserts, fr.Assumes[:n]...)
	asserts = append(asserts, o.PC)
	asserts = append(asserts, skolemizeNegGoal(o.Goal))
	return Script(asserts, getVals, "", 0), TermSize(asserts)
}

// skolemizeNegGoal returns not(goal) with the goal's leading universal quantifiers replaced by fresh constants.
func skolemizeNegGoal(g *Term) *Term {
	var rec func(g *Term) *Term
	rec = func(g *Term) *Term {
		switch {
		case g.Op == "forall":
			m := map[*Term]*Term{}
			for i := 0; i < g.NBind; i++ {
				m[g.Args[i]] = Fresh("sk."+g.Args[i].Op, g.Args[i].Sort)
			}
			return rec(Subst(g.Args[g.NBind], m))
		case g.Op == "=>" && len(g.Args) == 2:
			return Implies(g.Args[0], rec(g.Args[1]))
		case g.Op == "and" && !g.IsVar:
			var as []*Term
			for _, a := range g.Args {
				as = append(as, rec(a))
			}
			return And(as...)
		}
		return g
	}
	return Not(rec(g))
}

// groundScript is the instantiated weakening of the same query ("" when the query has no quantifier).
func groundScript(fr *FuncResult, o *Obligation) string {
	asserts := obligationAsserts(fr, o)
	if !hasQuant(asserts) {
		return ""
	}
	g := Instantiate(asserts, 4)
	return Script(g, nil, "", 0)
}

// runSolvers races the portfolio on one query; the first definite answer wins.
// ground, when non-empty, is the instantiated weakening of the same query: only its `unsat` counts.
// When all is true every solver runs to completion and all answers are recorded.
func runSolvers(script, path string, timeoutS int, all bool, seed int) SolveResult {
	return runSolvers2(script, "", path, timeoutS, all, seed)
}

func runSolvers2(script, ground, path string, timeoutS int, all bool, seed int) SolveResult {
	os.MkdirAll(filepath.Dir(path), 0o755)
	os.WriteFile(path, []byte(script), 0o644)
	gpath := strings.TrimSuffix(path, ".smt2") + ".ground.smt2"
	if ground != "" {
		os.WriteFile(gpath, []byte(ground), 0o644)
	}
	solvers := solverList(timeoutS)
	type ans struct {
		name, status, out string
		secs              float64
		ground            bool
	}
	ctx, cancel := context.WithTimeout(context.Background(), time.Duration(timeoutS+5)*time.Second)
	defer cancel()
	ch := make(chan ans, 2*len(solvers))
	var wg sync.WaitGroup
	launch := func(s Solver, file string, isGround bool) {
		wg.Add(1)
		go func() {
			defer wg.Done()
			start := time.Now()
			args := append(append([]string{}, s.Cmd[1:]...), file)
			if strings.HasPrefix(s.Name, "z3") && seed != 0 {
				args = append([]string{fmt.Sprintf("smt.random_seed=%d", seed%1000000), fmt.Sprintf("sat.random_seed=%d", seed%1000000)}, args...)
			}
			if strings.HasPrefix(s.Name, "cvc5") && seed != 0 {
				args = append([]string{fmt.Sprintf("--seed=%d", seed%1000000)}, args...)
			}
			cmd := exec.CommandContext(ctx, s.Cmd[0], args...)
			var out bytes.Buffer
			cmd.Stdout = &out
			cmd.Stderr = &out
			cmd.Run()
			o := out.String()
			first := strings.TrimSpace(strings.SplitN(o, "\n", 2)[0])
			status := "error"
			switch {
			case first == "unsat":
				status = "unsat"
			case first == "sat":
				status = "sat"
			case first == "unknown":
				status = "unknown"
			case first == "timeout" || ctx.Err() != nil:
				status = "timeout"
			case strings.Contains(o, "timeout") || strings.Contains(o, "interrupted"):
				status = "timeout"
			}
			name := s.Name
			if isGround {
				name += "+inst"
				if status == "sat" {
					status = "unknown" // a model of the weakened query proves nothing
				}
			}
			ch <- ans{name, status, o, time.Since(start).Seconds(), isGround}
		}()
	}
	for _, s := range solvers {
		launch(s, path, false)
		if ground != "" {
			launch(s, gpath, true)
		}
	}
	go func() { wg.Wait(); close(ch) }()
	res := SolveResult{Status: "unknown", All: map[string]string{}}
	var satAns *ans
	for a := range ch {
		a := a
		res.All[a.name] = a.status
		if a.status == "unsat" && res.Status != "unsat" {
			res.Status, res.Backend, res.Seconds, res.Output = "unsat", a.name, a.secs, a.out
			if !all {
				cancel()
			}
		}
		if a.status == "sat" && satAns == nil {
			satAns = &a
			if !all && res.Status != "unsat" {
				cancel()
			}
		}
		if res.Status == "unknown" && (a.status == "timeout" || a.status == "error") {
			res.Output += fmt.Sprintf("[%s: %s] %s\n", a.name, a.status, firstLines(a.out, 3))
		}
	}
	if res.Status != "unsat" && satAns != nil {
		res.Status, res.Backend, res.Seconds, res.Output = "sat", satAns.name, satAns.secs, satAns.out
	}
	if res.Status == "unsat" && satAns != nil {
		res.Status = "disagree"
		res.Output = fmt.Sprintf("%s says unsat, %s says sat", res.Backend, satAns.name)
	}
	if ground != "" && res.Status == "unsat" {
		os.Remove(gpath)
	}
	return res
}

func firstLines(s string, n int) string {
	ls := strings.Split(s, "\n")
	if len(ls) > n {
		ls = ls[:n]
	}
	return strings.Join(ls, " | ")
}


// quickUnsat runs one fast solver on a script; true only for a definite `unsat`.
func quickUnsat(script string, timeoutS int) bool {
	f, err := os.CreateTemp(filepath.Join(verifRoot, "work"), "q*.smt2")
	if err != nil {
		return false
	}
	f.WriteString(script)
	f.Close()
	defer os.Remove(f.Name())
	for _, s := range [][]string{{"z3-new", fmt.Sprintf("-T:%d", timeoutS), "-smt2", f.Name()}, {"/usr/bin/z3", fmt.Sprintf("-T:%d", timeoutS), "-smt2", f.Name()}} {
		var out bytes.Buffer
		cmd := exec.Command(s[0], s[1:]...)
		cmd.Stdout = &out
		cmd.Run()
		first := strings.TrimSpace(strings.SplitN(out.String(), "\n", 2)[0])
		if first == "unsat" {
			return true
		}
		if first == "sat" {
			return false
		}
	}
	return false
}
