package main

import (
	"bytes"
	"context"
	"fmt"
	"os"
	"os/exec"
	"path/filepath"
	"strings"
	"sync"
	"time"
)

type Solver struct {
	Name string
	Cmd  []string // file name appended
}

func solverList(timeoutS int) []Solver {
	t := fmt.Sprintf("%d", timeoutS)
	return []Solver{
		{"z3-4.8.12", []string{"/usr/bin/z3", "-T:" + t, "-smt2"}},
		{"z3-5.1.0", []string{"z3-new", "-T:" + t, "-smt2"}},
		{"cvc5-1.0", []string{"cvc5", "--tlimit=" + t + "000", "--lang=smt2", "--produce-models"}},
	}
}

type SolveResult struct {
	Status  string // unsat sat unknown timeout error
	Backend string
	Seconds float64
	Output  string
	All     map[string]string
}

func hasQuant(ts []*Term) bool {
	seen := map[int]bool{}
	var rec func(t *Term) bool
	rec = func(t *Term) bool {
		if seen[t.ID] {
			return false
		}
		seen[t.ID] = true
		if t.Op == "forall" || t.Op == "exists" {
			return true
		}
		for _, a := range t.Args {
			if rec(a) {
				return true
			}
		}
		return false
	}
	for _, t := range ts {
		if rec(t) {
			return true
		}
	}
	return false
}

// obligationScript builds the refutation query of one obligation.
func obligationScript(fr *FuncResult, o *Obligation, getVals []*Term) (string, int) {
	var asserts []*Term
	asserts = append(asserts, fr.GFacts...)
	n := o.NAssume
	if n > len(fr.Assumes) {
		n = len(fr.Assumes)
	}
	asserts = append(asserts, fr.Assumes[:n]...)
	asserts = append(asserts, o.PC)
	asserts = append(asserts, Not(o.Goal))
	return Script(asserts, getVals, "", 0), TermSize(asserts)
}

// runSolvers races the portfolio on one script; the first definite answer wins.
// When all is true every solver runs to completion and all answers are recorded.
func runSolvers(script, path string, timeoutS int, all bool, seed int) SolveResult {
	os.MkdirAll(filepath.Dir(path), 0o755)
	os.WriteFile(path, []byte(script), 0o644)
	solvers := solverList(timeoutS)
	type ans struct {
		name, status, out string
		secs              float64
	}
	ctx, cancel := context.WithTimeout(context.Background(), time.Duration(timeoutS+5)*time.Second)
	defer cancel()
	ch := make(chan ans, len(solvers))
	var wg sync.WaitGroup
	for _, s := range solvers {
		wg.Add(1)
		go func(s Solver) {
			defer wg.Done()
			start := time.Now()
			args := append(append([]string{}, s.Cmd[1:]...), path)
			if strings.HasPrefix(s.Name, "z3") && seed != 0 {
				args = append([]string{fmt.Sprintf("smt.random_seed=%d", seed%1000000), fmt.Sprintf("sat.random_seed=%d", seed%1000000)}, args...)
			}
			if strings.HasPrefix(s.Name, "cvc5") && seed != 0 {
				args = append([]string{fmt.Sprintf("--seed=%d", seed%1000000)}, args...)
			}
			cmd := exec.CommandContext(ctx, s.Cmd[0], args...)
			var out bytes.Buffer
			cmd.Stdout = &out
			cmd.Stderr = &out
			cmd.Run()
			o := out.String()
			first := strings.TrimSpace(strings.SplitN(o, "\n", 2)[0])
			status := "error"
			switch {
			case first == "unsat":
				status = "unsat"
			case first == "sat":
				status = "sat"
			case first == "unknown":
				status = "unknown"
			case first == "timeout" || ctx.Err() != nil:
				status = "timeout"
			case strings.Contains(o, "timeout") || strings.Contains(o, "interrupted"):
				status = "timeout"
			}
			ch <- ans{s.Name, status, o, time.Since(start).Seconds()}
		}(s)
	}
	go func() { wg.Wait(); close(ch) }()
	res := SolveResult{Status: "unknown", All: map[string]string{}}
	var satAns *ans
	for a := range ch {
		a := a
		res.All[a.name] = a.status
		if a.status == "unsat" && res.Status != "unsat" {
			res.Status, res.Backend, res.Seconds, res.Output = "unsat", a.name, a.secs, a.out
			if !all {
				cancel()
			}
		}
		if a.status == "sat" && satAns == nil {
			satAns = &a
			if !all && res.Status != "unsat" {
				// a model was found: no point waiting for the others
				cancel()
			}
		}
		if res.Status == "unknown" && (a.status == "timeout" || a.status == "error") {
			res.Output += fmt.Sprintf("[%s: %s] %s\n", a.name, a.status, firstLines(a.out, 3))
		}
	}
	if res.Status != "unsat" && satAns != nil {
		res.Status, res.Backend, res.Seconds, res.Output = "sat", satAns.name, satAns.secs, satAns.out
	}
	if res.Status == "unsat" && satAns != nil {
		// disagreement between back ends: do not count as proved
		res.Status = "disagree"
		res.Output = fmt.Sprintf("%s says unsat, %s says sat", res.Backend, satAns.name)
	}
	return res
}

func firstLines(s string, n int) string {
	ls := strings.Split(s, "\n")
	if len(ls) > n {
		ls = ls[:n]
	}
	return strings.Join(ls, " | ")
}
