package main

import (
	"fmt"
	"go/types"
	"os"

	"golang.org/x/tools/go/packages"
	"golang.org/x/tools/go/ssa"
	"golang.org/x/tools/go/ssa/ssautil"
)

func main() {
	cfg := &packages.Config{Mode: packages.LoadSyntax, Dir: "/repo", BuildFlags: []string{"-tags=verif"}, Env: append(os.Environ(), "GOFLAGS=-mod=mod", "GOPROXY=off")}
	pkgs, err := packages.Load(cfg, os.Args[1])
	if err != nil {
		panic(err)
	}
	prog, spkgs := ssautil.Packages(pkgs, ssa.NaiveForm)
	_ = prog
	for _, p := range spkgs {
		if p == nil {
			continue
		}
		p.Build()
		for _, name := range os.Args[2:] {
			for _, m := range p.Members {
				if f, ok := m.(*ssa.Function); ok && f.Name() == name {
					f.WriteTo(os.Stdout)
				}
				if t, ok := m.(*ssa.Type); ok {
					for _, recv := range []interface{ }{t.Type()} {
						_ = recv
					}
					ms := prog.MethodSets.MethodSet(types.NewPointer(t.Type()))
					for i := 0; i < ms.Len(); i++ {
						f := prog.MethodValue(ms.At(i))
						if f != nil && t.Name()+"."+f.Name() == name {
							f.WriteTo(os.Stdout)
							for _, af := range f.AnonFuncs {
								af.WriteTo(os.Stdout)
								for _, af2 := range af.AnonFuncs {
									af2.WriteTo(os.Stdout)
								}
							}
						}
					}
				}
			}
		}
	}
	fmt.Println("done")
}
